#!/usr/bin/env python3
"""Sensitivity self-test: apply small source mutations to a scratch copy of /repo and
confirm that the named check reports a VIOLATION (bin/selftest mutants [Cxx]).

Each mutant: (id, property, file, old, new).  The scratch copy lives under /dev/shm and is
removed immediately.  Nothing is ever written to /repo.
"""
import os
import shutil
import subprocess
import sys
import tempfile

ROOT = os.path.dirname(os.path.dirname(os.path.abspath(__file__)))

MUTANTS = [
    ("M01-dpop-value-separator", "C01", "pydcop/algorithms/dpop.py",
     "            for v in self._children_separator[c]:\n",
     "            for v in self._children_separator[c][:1]:\n"),
    ("M01-dpop-mode-ignored", "C01", "pydcop/algorithms/dpop.py",
     "        util = projection(self._joined_utils, self._variable, self._mode)",
     "        util = projection(self._joined_utils, self._variable, 'min')"),
    ("M02-syncbb-strict-bound", "C02", "pydcop/algorithms/syncbb.py",
     "                    if self.mode == \"min\" and path_bound + cost < best_bound:",
     "                    if self.mode == \"min\" and path_bound + cost + 1 < best_bound:"),
    ("M03-mgm-ties-both-move", "C03", "pydcop/algorithms/mgm.py",
     "            if ties[0] == self.name:\n                if self.logger.isEnabledFor(logging.INFO):\n                    self.logger.info(\n                        f\"Won lexic",
     "            if True:\n                if self.logger.isEnabledFor(logging.INFO):\n                    self.logger.info(\n                        f\"Won lexic"),
    ("M04-mgm-never-move-on-tie", "C04", "pydcop/algorithms/mgm.py",
     "            elif self._gain == max_neighbors:\n",
     "            elif False:\n"),
    ("M07-mgm-stop-off-by-one", "C07", "pydcop/algorithms/mgm.py",
     "        if self.stop_cycle and self.cycle_count >= self.stop_cycle:",
     "        if self.stop_cycle and self.cycle_count > self.stop_cycle:"),
    ("M07-dsa-stop-late", "C07", "pydcop/algorithms/dsa.py",
     "            if self.stop_cycle and self.cycle_count >= self.stop_cycle:",
     "            if self.stop_cycle and self.cycle_count > self.stop_cycle:"),
    ("M08-sync-drop-next-buffer", "C08", "pydcop/infrastructure/computations.py",
     "        elif msg.cycle_id == self._current_cycle + 1:\n            self._next_cycle_messages[sender] = (msg, t)",
     "        elif msg.cycle_id == self._current_cycle + 1:\n            pass"),
    ("M08-sync-counts-sync-as-algo", "C08", "pydcop/infrastructure/computations.py",
     "            if not isinstance(msg, SynchronizationMsg)\n",
     "            if True\n"),
    ("M05-maxsum-includes-recipient", "C05", "pydcop/algorithms/maxsum.py",
     "            if f == factor or f not in costs:",
     "            if f not in costs:"),
    ("M15-pseudotree-link-swapped", "C15", "pydcop/computations_graph/pseudotree.py",
     "        return PseudoTreeLink(r[\"type\"], from_repr(r[\"source\"]), from_repr(r[\"target\"]))",
     "        return PseudoTreeLink(r[\"type\"], from_repr(r[\"target\"]), from_repr(r[\"source\"]))"),
    ("M18-priority-ignored", "C18", "pydcop/infrastructure/communication.py",
     "            self._queue.put((msg_type, count, now, full_msg))",
     "            self._queue.put((MSG_ALGO, count, now, full_msg))"),
    ("M18-shutdown-without-drain", "C18", "pydcop/infrastructure/agents.py",
     "            while not self._stopping.is_set():",
     "            while not self._stopping.is_set() and not self._shutdown.is_set():"),
    ("M19-reinject-at-algo-priority", "C19", "pydcop/infrastructure/computations.py",
     "                self._msg_sender(src, self.name, msg, 19)\n            self.logger.debug(\n                \"On resume, re-injecting",
     "                self._msg_sender(src, self.name, msg, 20)\n            self.logger.debug(\n                \"On resume, re-injecting"),
    ("M20-skip-registration-notification", "C20", "pydcop/infrastructure/discovery.py",
     "        for interested in self._subscription_computations[computation]:\n            self.directory_computation.notify_computation_registered(",
     "        for interested in list(self._subscription_computations[computation])[1:]:\n            self.directory_computation.notify_computation_registered("),
    ("M22-stop-on-first-finished", "C22", "pydcop/infrastructure/orchestrator.py",
     "        all_finished = all(s == 'finished'",
     "        all_finished = any(s == 'finished'"),
    ("M25-accept-on-footprint-only", "C25", "pydcop/replication/dist_ucs_hostingcosts.py",
     "        if remaining_capacity >= max_footprint:",
     "        if remaining_capacity >= footprint:"),
    ("M27-always-activate-candidate", "C27", "pydcop/infrastructure/agents.py",
     "        if repair_comp.computation.current_value == 1:",
     "        if repair_comp.computation.current_value in (0, 1):"),
    ("M09-dba-no-counter-propagation", "C09", "pydcop/algorithms/dba.py",
     "        self._termination_counter = min(recv_msg.termination_counter,\n                                        self._termination_counter)",
     "        pass"),
    ("M09-dba-counter-never-reset", "C09", "pydcop/algorithms/dba.py",
     "            self._consistent = False\n            self._termination_counter = 0",
     "            self._consistent = False"),
]


def run_mutant(m, tier="quick", runs=None):
    mid, prop, path, old, new = m
    scratch = tempfile.mkdtemp(prefix="pydcop_mut_", dir="/dev/shm")
    try:
        shutil.copytree("/repo/pydcop", os.path.join(scratch, "pydcop"),
                        ignore=shutil.ignore_patterns("__pycache__"))
        fp = os.path.join(scratch, path)
        src = open(fp).read()
        if old not in src:
            return mid, prop, "STALE (pattern not found)"
        open(fp, "w").write(src.replace(old, new, 1))
        env = dict(os.environ, PYDCOP_SRC=scratch)
        if runs:
            env["VERIF_RUNS"] = str(runs)
        env["VERIF_EVIDENCE_DIR"] = os.path.join(scratch, "evidence")
        p = subprocess.run([os.path.join(ROOT, "bin", "check"), prop, tier], env=env,
                           capture_output=True, text=True)
        hit = [l for l in p.stdout.splitlines() if l.startswith("VIOLATION")]
        return mid, prop, ("CAUGHT rc=%d %s" % (p.returncode, hit[0][:120]) if hit and p.returncode == 1
                           else "MISSED rc=%d %s" % (p.returncode, p.stdout[-300:]))
    finally:
        shutil.rmtree(scratch, ignore_errors=True)


def main():
    only = sys.argv[1].upper() if len(sys.argv) > 1 else None
    bad = 0
    for m in MUTANTS:
        if only and m[1] != only and m[0] != sys.argv[1]:
            continue
        mid, prop, res = run_mutant(m)
        print(f"{mid:36s} {prop} {res}")
        if not res.startswith("CAUGHT"):
            bad += 1
    return 1 if bad else 0


if __name__ == "__main__":
    sys.exit(main())
