#!/usr/bin/env python3
"""Compare a junit xml of the repo's test-suite with /root/.vp/BASELINE.json stable_pass."""
import json
import sys
import xml.etree.ElementTree as ET

base = json.load(open("/root/.vp/BASELINE.json"))
stable = set(base["stable_pass"])
tree = ET.parse(sys.argv[1])
passed, failed = set(), set()
for tc in tree.iter("testcase"):
    name = f"{tc.get('classname')}::{tc.get('name')}"
    bad = any(ch.tag in ("failure", "error", "skipped") for ch in tc)
    (failed if bad else passed).add(name)
missing = sorted(stable - passed)
print(f"stable={len(stable)} passed_now={len(passed)} stable_not_passing={len(missing)} "
      f"newly_passing={len(passed - stable)}")
for m in missing[:40]:
    print("  NOT PASSING:", m)
sys.exit(1 if missing else 0)
