#!/usr/bin/env python3
"""Run the quick tier of every (or the given) check under several VERIF_SEED values and
report any VIOLATION / HARNESS-ERROR.  Evidence and replays go to a scratch directory so that
the committed evidence is not touched.  usage: tools/sweep.py SEED_FROM SEED_TO [Cxx ...]"""
import glob
import os
import subprocess
import sys
import tempfile

ROOT = os.path.dirname(os.path.dirname(os.path.abspath(__file__)))


def main():
    lo, hi = int(sys.argv[1]), int(sys.argv[2])
    props = [a.upper() for a in sys.argv[3:]] or sorted(
        os.path.basename(p)[:-3].upper()
        for p in glob.glob(os.path.join(ROOT, "sim", "props", "c[0-9][0-9].py")))
    scratch = tempfile.mkdtemp(prefix="sweep_", dir="/dev/shm")
    bad = 0
    for seed in range(lo, hi + 1):
        for prop in props:
            env = dict(os.environ, VERIF_SEED=str(seed), VERIF_EVIDENCE_DIR=scratch + "/ev",
                       VERIF_REPLAY_DIR=os.path.join(ROOT, "replays", f"sweep{seed}"))
            p = subprocess.run([os.path.join(ROOT, "bin", "check"), prop, "quick"], env=env,
                               capture_output=True, text=True)
            last = p.stdout.strip().splitlines()[-1] if p.stdout.strip() else ""
            flag = "ok" if p.returncode == 0 else f"RC={p.returncode}"
            print(f"seed={seed} {flag} {last}", flush=True)
            if p.returncode != 0:
                bad += 1
                for line in p.stdout.splitlines():
                    if line.startswith(("VIOLATION", "HARNESS", "  oracle=")):
                        print("    " + line[:400], flush=True)
    return 1 if bad else 0


if __name__ == "__main__":
    sys.exit(main())
