#!/usr/bin/env python3
"""Confirm a seeded change and run the checks against it, without touching /repo.

usage: tools/seeded.py <dir with patch.diff + demo.py> <Cxx> [--tests] [--tests-only] [--runs N] [--keep <dest>]

1. copies the current /repo working tree (pydcop/, tests/) to a scratch directory in /dev/shm;
2. runs demo.py on the copy (must exit 0), applies patch.diff, runs demo.py again (must fail);
3. optionally (--tests) runs the repository's baseline test command on the patched copy and
   compares with BASELINE.json's stable_pass set;
4. runs `bin/check <Cxx> quick` with PYDCOP_SRC pointing at the patched copy and reports whether a
   VIOLATION was raised;
5. with --keep <dest>, stores patch.diff, demo.py, the agent's notes and meta.json under <dest>.
The scratch copy is always removed.
"""
import json
import os
import shutil
import subprocess
import sys
import tempfile

ROOT = os.path.dirname(os.path.dirname(os.path.abspath(__file__)))
PY = "/venv/bin/python"


def run(cmd, cwd, env=None, timeout=3000):
    e = dict(os.environ)
    e.update(env or {})
    p = subprocess.run(cmd, cwd=cwd, env=e, capture_output=True, text=True, timeout=timeout)
    return p.returncode, p.stdout + p.stderr


def main():
    args = sys.argv[1:]
    src, prop = args[0], args[1].upper()
    do_tests = "--tests" in args
    runs = args[args.index("--runs") + 1] if "--runs" in args else None
    keep = args[args.index("--keep") + 1] if "--keep" in args else None
    extra_props = [a.upper() for a in args[2:] if a.upper().startswith("C") and a[1:].isdigit()]
    scratch = tempfile.mkdtemp(prefix="seeded_", dir="/dev/shm")
    meta = {"property": prop, "source": src}
    try:
        for d in ("pydcop", "tests"):
            shutil.copytree(os.path.join("/repo", d), os.path.join(scratch, d),
                            ignore=shutil.ignore_patterns("__pycache__"))
        for f in ("setup.py", "setup.cfg"):
            if os.path.exists(os.path.join("/repo", f)):
                shutil.copy(os.path.join("/repo", f), scratch)
        shutil.copy(os.path.join(src, "demo.py"), os.path.join(scratch, "demo.py"))
        env = {"PYTHONPATH": scratch, "PYTHONWARNINGS": "ignore"}
        rc0, out0 = run([PY, "demo.py"], scratch, env, 1200)
        meta["demo_on_original"] = {"exit": rc0, "tail": out0[-400:]}
        rcp, outp = run(["patch", "-p1", "-i", os.path.join(os.path.abspath(src), "patch.diff")],
                        scratch)
        meta["patch_applies"] = rcp == 0
        if rcp != 0:
            meta["patch_output"] = outp[-800:]
        rc1, out1 = run([PY, "demo.py"], scratch, env, 1200)
        meta["demo_on_changed"] = {"exit": rc1, "tail": out1[-600:]}
        meta["imports"] = run([PY, "-c", "import pydcop.infrastructure.run, pydcop.algorithms.dpop, "
                               "pydcop.commands.solve; import pydcop; print(pydcop.__file__)"],
                              scratch, env)[1].strip()[-200:]
        if do_tests:
            xml = os.path.join(scratch, "junit.xml")
            rct, outt = run([PY, "-m", "pytest", "-ra", "-q", "-p", "no:cacheprovider",
                             "--timeout=900", "--continue-on-collection-errors",
                             f"--junitxml={xml}"], scratch, env, 6000)
            rcb, outb = run([sys.executable, os.path.join(ROOT, "tools", "check_baseline.py"), xml],
                            scratch)
            meta["tests_on_changed"] = {"summary": outt.strip().splitlines()[-1][-200:],
                                        "stable_check": outb.strip()[-600:],
                                        "stable_all_pass": rcb == 0}
        meta["checks"] = {}
        if "--tests-only" in args:
            # refresh only the test-suite comparison of an already confirmed seed
            old = json.load(open(os.path.join(keep, "meta.json")))
            old["tests_on_changed"] = meta.get("tests_on_changed")
            with open(os.path.join(keep, "meta.json"), "w") as f:
                json.dump(old, f, indent=1)
            print(json.dumps(old["tests_on_changed"], indent=1))
            return 0
        for pr in [prop] + [p for p in extra_props if p != prop]:
            env2 = {"PYDCOP_SRC": scratch, "VERIF_EVIDENCE_DIR": os.path.join(scratch, "ev"),
                    "VERIF_REPLAY_DIR": os.path.join(scratch, "rp")}
            if runs:
                env2["VERIF_RUNS"] = runs
            rcc, outc = run([os.path.join(ROOT, "bin", "check"), pr, "quick"], ROOT, env2, 3000)
            lines = [l for l in outc.splitlines()
                     if l.startswith(("VIOLATION", "  oracle=", "HARNESS")) or " quick:" in l]
            meta["checks"][pr] = {"exit": rcc, "caught": rcc == 1, "lines": [l[:300] for l in lines][:8]}
        print(json.dumps(meta, indent=1))
        if keep:
            os.makedirs(keep, exist_ok=True)
            for f in ("patch.diff", "demo.py", "NOTES.md"):
                a, b = os.path.join(src, f), os.path.join(keep, f)
                if os.path.exists(a) and os.path.abspath(a) != os.path.abspath(b):
                    shutil.copy(a, b)
            mp = os.path.join(keep, "meta.json")
            if os.path.exists(mp):
                # keep what an earlier confirmation recorded (description fields, test-suite run)
                old = json.load(open(mp))
                for k, v in old.items():
                    if k not in meta or (k == "tests_on_changed" and not meta.get(k)):
                        meta[k] = v
            meta.pop("source", None)
            with open(mp, "w") as f:
                json.dump(meta, f, indent=1)
    finally:
        shutil.rmtree(scratch, ignore_errors=True)
    return 0


if __name__ == "__main__":
    sys.exit(main())
