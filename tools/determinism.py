#!/usr/bin/env python3
"""Determinism self-test: every seed is run twice in one process and once more in a fresh
interpreter, at two worker counts, under each pinned hash seed; digests must be identical.
Any divergence is a HARNESS-ERROR (exit 2), never a VIOLATION."""
import glob
import json
import os
import subprocess
import sys

ROOT = os.path.dirname(os.path.dirname(os.path.abspath(__file__)))
PY = "/venv/bin/python"


def collect(prop, n, chunks):
    """Run seeds [0, n) split in `chunks` slices per hash seed; returns {i: digest}."""
    procs = []
    per = (n + chunks - 1) // chunks
    for hs in range(4):
        for c in range(chunks):
            env = dict(os.environ, PYTHONHASHSEED=str(hs), PYTHONPATH=ROOT, PYTHONWARNINGS="ignore",
                       PYDCOP_SRC=os.environ.get("PYDCOP_SRC", "/repo"))
            procs.append(subprocess.Popen(
                [PY, "-m", "sim.digests", prop, "quick", str(c * per), str(per), "2"],
                cwd=ROOT, env=env, stdout=subprocess.PIPE, stderr=subprocess.PIPE))
    out, bad = {}, []
    for p in procs:
        o, e = p.communicate()
        if p.returncode not in (0, 3):
            bad.append(("worker failed", e.decode(errors="replace")[-500:]))
            continue
        d = json.loads(o.decode())
        bad += [("in-process", x) for x in d["diverged"]]
        for i, dg in d["digests"]:
            out[i] = dg
    return out, bad


def main():
    props = [a.upper() for a in sys.argv[1:] if a.upper().startswith("C")]
    n = int(os.environ.get("SELFTEST_SEEDS", "64"))
    if not props:
        props = sorted(os.path.basename(p)[:-3].upper()
                       for p in glob.glob(os.path.join(ROOT, "sim", "props", "c[0-9][0-9].py")))
    rc = 0
    for prop in props:
        a, bad_a = collect(prop, n, 1)     # 4 processes
        b, bad_b = collect(prop, n, 4)     # 16 processes, fresh interpreters, other slicing
        diff = [i for i in a if a[i] != b.get(i)]
        bad = bad_a + bad_b
        status = "ok" if not diff and not bad else "DIVERGED"
        print(f"determinism {prop}: {len(a)} seeds x (2 in-process + fresh interpreter, 4 and 16 "
              f"processes, 4 hash seeds): {status}")
        if diff or bad:
            rc = 2
            print("HARNESS-ERROR nondeterminism", prop, diff[:10], bad[:3])
    return rc


if __name__ == "__main__":
    sys.exit(main())
