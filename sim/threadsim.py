"""Engine B: the real pyDcop agent runtime on baton-passed OS threads in virtual time.

Every pyDcop thread is a real OS thread wrapped in SimThread; exactly one holds the baton.
A thread gives the baton up only at a yield point (queue put/get, event set/wait, thread
start/join, timer start, sleep, and — when enabled — traced line / opcode events).  The
scheduler builds the sorted list of runnable threads, draws tape.draw(n), releases that
thread's private semaphore and parks the caller on its own.  When nothing is runnable the
virtual clock jumps to the earliest deadline; with no deadline either the run is a
deadlock (an observable outcome).  One tape -> one execution.
"""
import heapq
import sys
import threading as _th
import types
from queue import Empty as _Empty

RUNNABLE, BLOCKED, DONE, NEW = "runnable", "blocked", "done", "new"


class SimAbort(BaseException):
    """Raised inside simulated threads when the run is aborted (deadlock / caps / teardown)."""


class SimDeadlock(Exception):
    pass


class Sim:
    def __init__(self, tape, max_steps=400000, max_time=600.0, step_cost=0.002,
                 preempt_p=0.0, opcode_p=0.0, trace_prefixes=(), opcode_funcs=()):
        self.tape = tape
        self.now = 0.0
        self._pc_calls = 0
        self.threads = []
        self.current = None
        self.steps = 0
        self.max_steps = max_steps
        self.max_time = max_time
        self.step_cost = step_cost
        self.dead = False
        self.abort_reason = None
        self.preempt_p = preempt_p
        self.opcode_p = opcode_p
        self.trace_prefixes = tuple(trace_prefixes)
        self.opcode_funcs = list(opcode_funcs)
        self.stats = {"handoffs": 0, "clock_jumps": 0, "preemptions": 0, "opcode_preemptions": 0,
                      "timers_fired": 0, "stalls": 0, "threads": 0}
        self.event_no = 0                  # global event sequence number for histories
        self.thread_errors = []
        self.baton_violations = []
        self._stall = None                 # (thread, steps left)
        self.stall_p = 0.0
        # the driver is thread 0
        main = SimThread(self, target=None, name="driver")
        main.state = RUNNABLE
        main.real = _th.current_thread()
        self.current = main
        self.main = main

    # -- clock ---------------------------------------------------------------
    def perf_counter(self):
        self._pc_calls += 1
        return self.now + self._pc_calls * 1e-9

    def next_event_no(self):
        self.event_no += 1
        return self.event_no

    # -- scheduling core -------------------------------------------------------
    def _check_alive(self):
        if self.dead:
            raise SimAbort(self.abort_reason)

    def _runnable(self):
        out = []
        for t in self.threads:
            if t.state == RUNNABLE:
                out.append(t)
            elif t.state == BLOCKED:
                if t.pred is not None and t.pred():
                    out.append(t)
                elif t.deadline is not None and t.deadline <= self.now:
                    out.append(t)
        return out

    def switch(self):
        """Called by the current thread at a yield point (its state is already set)."""
        me = self.current
        self._check_alive()
        if _th.current_thread() is not me.real:
            self.baton_violations.append((_th.current_thread().name, me.name))
        self.steps += 1
        if self.steps > self.max_steps:
            self.abort("step cap")
            raise SimAbort(self.abort_reason)
        self.now += self.tape.draw(8) * self.step_cost / 8.0 if self.step_cost else 0.0
        while True:
            run = self._runnable()
            if run:
                break
            deadlines = [t.deadline for t in self.threads
                         if t.state == BLOCKED and t.deadline is not None]
            if not deadlines:
                self.abort("deadlock")
                raise SimAbort(self.abort_reason)
            nxt = min(deadlines)
            if nxt > self.max_time:
                self.abort("virtual-time cap")
                raise SimAbort(self.abort_reason)
            self.now = max(self.now, nxt)
            self.stats["clock_jumps"] += 1
        if self.now > self.max_time:
            self.abort("virtual-time cap")
            raise SimAbort(self.abort_reason)
        # optional stall fault: one thread is skipped for a stretch
        if (self.stall_p or self._stall is not None) and len(run) > 1:
            if self._stall is None and self.tape.coin(self.stall_p):
                self._stall = [self.tape.pick(run), 1 + self.tape.draw(30)]
                self.stats["stalls"] += 1
            if self._stall is not None:
                self._stall[1] -= 1
                sub = [t for t in run if t is not self._stall[0]]
                if self._stall[1] <= 0:
                    self._stall = None
                elif sub:
                    run = sub
        nxt = run[self.tape.draw(len(run))]
        self.tape.note("sw", nxt.index, round(self.now, 6))
        if nxt is me:
            me.state = RUNNABLE
            me.pred = me.deadline = None
            return
        self.stats["handoffs"] += 1
        self._handoff(me, nxt)

    def _handoff(self, me, nxt):
        nxt.woken_by_timeout = not (nxt.state == RUNNABLE or (nxt.pred is not None and nxt.pred()))
        nxt.state = RUNNABLE
        nxt.pred = nxt.deadline = None
        self.current = nxt
        nxt.sem.release()
        if me is not None and me.state != DONE:
            me.sem.acquire()
            self._check_alive()

    def yield_(self):
        me = self.current
        me.state = RUNNABLE
        self.switch()

    def block(self, pred, timeout=None):
        """Block the current thread until pred() or the virtual timeout.  Returns pred()."""
        me = self.current
        self._check_alive()
        if pred():
            # still a yield point: somebody else may run first
            me.state = RUNNABLE
            self.switch()
            return True
        me.state = BLOCKED
        me.pred = pred
        me.deadline = None if timeout is None else self.now + max(0.0, timeout)
        self.switch()
        return pred()

    def sleep(self, d):
        me = self.current
        self._check_alive()
        me.state = BLOCKED
        me.pred = None
        me.deadline = self.now + max(0.0, d)
        self.switch()

    def abort(self, reason):
        if self.dead:
            return
        self.dead = True
        self.abort_reason = reason
        for t in self.threads:
            if t is not self.current and t.state != DONE:
                t.sem.release()

    def finish(self):
        """Called by the driver at the end of a run: tear every remaining thread down."""
        self.abort(self.abort_reason or "teardown")
        leaked = 0
        for t in self.threads:
            if t.real is not None and t.real is not _th.current_thread():
                t.real.join(1.0)
                if t.real.is_alive():
                    leaked += 1
        return leaked

    # -- tracing (line / opcode pre-emption) ---------------------------------------
    def tracer(self):
        prefixes = self.trace_prefixes
        opfuncs = self.opcode_funcs
        sim = self

        def local(frame, event, arg):
            if sim.dead:
                return None
            if event == "line":
                if sim.preempt_p and sim.current is not None and \
                        _th.current_thread() is sim.current.real and not sim.current.no_preempt:
                    if sim.tape.coin(sim.preempt_p):
                        sim.stats["preemptions"] += 1
                        sim.yield_()
            return local

        def glob(frame, event, arg):
            if event != "call" or sim.dead:
                return None
            fn = frame.f_code.co_filename
            if not fn.startswith(prefixes):
                return None
            if frame.f_code.co_name == "<module>":
                return None                      # import-time code runs once per process
            return local
        return glob


class SimThread:
    """Stands for threading.Thread."""
    _sim = None

    def __init__(self, sim=None, group=None, target=None, name=None, args=(), kwargs=None,
                 daemon=None):
        if not isinstance(sim, Sim):
            # called as Thread(target=..., name=...) by pydcop through the module attribute
            sim = SimThread._sim
        self.sim = sim
        self.target = target
        self.name = name or f"T{len(sim.threads)}"
        self.args = args
        self.kwargs = kwargs or {}
        self.daemon = True
        self.state = NEW
        self.pred = None
        self.deadline = None
        self.sem = _th.Semaphore(0)
        self.real = None
        self.index = len(sim.threads)
        self.woken_by_timeout = False
        self.no_preempt = 0
        self.error = None
        sim.threads.append(self)
        sim.stats["threads"] += 1

    def _bootstrap(self):
        sim = self.sim
        self.sem.acquire()                      # wait for the baton
        if sim.dead:
            self.state = DONE
            return
        if sim.preempt_p:
            sys.settrace(sim.tracer())
        try:
            self.target(*self.args, **self.kwargs)
        except SimAbort:
            pass
        except BaseException as e:              # an escaped exception kills a real thread too
            self.error = e
            sim.thread_errors.append((self.name, repr(e)))
        finally:
            sys.settrace(None)
            self.state = DONE
            if not sim.dead:
                try:
                    self._exit()
                except SimAbort:
                    pass

    def _exit(self):
        sim = self.sim
        # pick the next thread without parking (we are done)
        sim.steps += 1
        while True:
            run = sim._runnable()
            if run:
                break
            deadlines = [t.deadline for t in sim.threads
                         if t.state == BLOCKED and t.deadline is not None]
            if not deadlines:
                sim.abort("deadlock")
                return
            nxt = min(deadlines)
            if nxt > sim.max_time:
                sim.abort("virtual-time cap")
                return
            sim.now = max(sim.now, nxt)
            sim.stats["clock_jumps"] += 1
        nxt = run[sim.tape.draw(len(run))]
        sim.tape.note("sw", nxt.index, round(sim.now, 6))
        sim.stats["handoffs"] += 1
        sim._handoff(None, nxt)

    def start(self):
        sim = self.sim
        sim._check_alive()
        if self.state != NEW:
            raise RuntimeError("threads can only be started once")
        self.real = _th.Thread(target=self._bootstrap, name="sim_" + self.name, daemon=True)
        self.state = RUNNABLE
        self.real.start()
        sim.yield_()

    def join(self, timeout=None):
        return self.sim.block(lambda: self.state == DONE, timeout)

    def is_alive(self):
        return self.state in (RUNNABLE, BLOCKED)

    @property
    def ident(self):
        return self.index


class SimEvent:
    _sim = None

    def __init__(self):
        self.sim = SimEvent._sim
        self._flag = False

    def is_set(self):
        return self._flag

    isSet = is_set

    def set(self):
        self._flag = True
        self.sim.yield_()

    def clear(self):
        self._flag = False

    def wait(self, timeout=None):
        return self.sim.block(lambda: self._flag, timeout)


class SimTimer:
    """threading.Timer: a thread that sleeps then calls the function unless cancelled."""
    _sim = None

    def __init__(self, interval, function, args=None, kwargs=None):
        self.sim = SimTimer._sim
        self.interval = interval
        self.function = function
        self.args = args or ()
        self.kwargs = kwargs or {}
        self.cancelled = False
        self.daemon = True
        self.thread = SimThread(self.sim, target=self._run, name=f"timer{len(self.sim.threads)}")

    def _run(self):
        self.sim.block(lambda: self.cancelled, self.interval)
        if not self.cancelled:
            self.sim.stats["timers_fired"] += 1
            self.function(*self.args, **self.kwargs)

    def start(self):
        self.thread.start()

    def cancel(self):
        self.cancelled = True

    def join(self, timeout=None):
        return self.thread.join(timeout)

    def is_alive(self):
        return self.thread.is_alive()


class SimPriorityQueue:
    """queue.PriorityQueue on a heap (same tuple-comparison semantics)."""
    _sim = None
    kind = "priority"

    def __init__(self, maxsize=0):
        self.sim = type(self)._sim
        self.items = []
        self.on_push = None
        self.on_pop = None

    def _put(self, item):
        heapq.heappush(self.items, item)

    def _get(self):
        return heapq.heappop(self.items)

    def qsize(self):
        return len(self.items)

    def empty(self):
        return not self.items

    def put(self, item, block=True, timeout=None):
        self.sim._check_alive()
        self._put(item)
        if self.on_push:
            # harness hooks run atomically with the operation they observe
            self.sim.current.no_preempt += 1
            try:
                self.on_push(self, item)
            finally:
                self.sim.current.no_preempt -= 1
        self.sim.yield_()

    put_nowait = put

    def get(self, block=True, timeout=None):
        sim = self.sim
        if not block:
            sim._check_alive()
            if not self.items:
                raise _Empty
        else:
            ok = sim.block(lambda: bool(self.items), timeout)
            if not ok:
                raise _Empty
        item = self._get()
        if self.on_pop:
            sim.current.no_preempt += 1
            try:
                self.on_pop(self, item)
            finally:
                sim.current.no_preempt -= 1
        return item

    def get_nowait(self):
        return self.get(block=False)


class SimQueue(SimPriorityQueue):
    kind = "fifo"

    def _put(self, item):
        self.items.append(item)

    def _get(self):
        return self.items.pop(0)


class SimLifoQueue(SimPriorityQueue):
    kind = "lifo"

    def _put(self, item):
        self.items.append(item)

    def _get(self):
        return self.items.pop()


_PATCHES = []


class _Shim:
    """A module stand-in: overridden names first, everything else from the real module (so that
    code using e.g. threading.main_thread() or time.strftime keeps working)."""

    def __init__(self, real, **over):
        self.__dict__["_real"] = real
        self.__dict__.update(over)

    def __getattr__(self, name):
        return getattr(self.__dict__["_real"], name)


def install(sim):
    """Replace the thread/clock/queue names of the pydcop runtime modules."""
    import pydcop.infrastructure.agents as agents
    import pydcop.infrastructure.communication as communication
    import pydcop.infrastructure.orchestrator as orchestrator
    import pydcop.infrastructure.orchestratedagents as orchestratedagents
    import pydcop.infrastructure.run as run
    for cls in (SimThread, SimEvent, SimTimer, SimPriorityQueue, SimQueue, SimLifoQueue):
        cls._sim = sim
    th_shim = _Shim(_th, Event=SimEvent, Timer=SimTimer, Thread=SimThread)
    import time as _time
    time_shim = _Shim(_time, perf_counter=sim.perf_counter, sleep=sim.sleep,
                      time=sim.perf_counter, monotonic=sim.perf_counter)

    def patch(mod, name, val):
        if hasattr(mod, name):
            _PATCHES.append((mod, name, getattr(mod, name)))
            setattr(mod, name, val)

    patch(agents, "Thread", SimThread)
    patch(agents, "threading", th_shim)
    patch(agents, "perf_counter", sim.perf_counter)
    patch(agents, "sleep", sim.sleep)
    patch(communication, "PriorityQueue", SimPriorityQueue)
    patch(communication, "Queue", SimQueue)
    patch(communication, "LifoQueue", SimLifoQueue)
    patch(communication, "Thread", SimThread)
    patch(communication, "perf_counter", sim.perf_counter)
    patch(communication, "sleep", sim.sleep)
    patch(orchestrator, "threading", th_shim)
    patch(orchestrator, "perf_counter", sim.perf_counter)
    patch(orchestrator, "time", time_shim)
    patch(orchestrator, "Queue", SimQueue)
    patch(orchestratedagents, "perf_counter", sim.perf_counter)
    patch(run, "Queue", SimQueue)
    if sim.preempt_p:
        sys.settrace(sim.tracer())        # the driver thread
    if sim.opcode_p and sim.opcode_funcs:
        _install_instruction_events(sim)


_TOOL = 3
_MON_CODES = []


def _install_instruction_events(sim):
    """Instruction-level pre-emption inside selected functions through sys.monitoring local
    events (deterministic from the first call, unlike frame.f_trace_opcodes on 3.12)."""
    mon = sys.monitoring
    try:
        mon.use_tool_id(_TOOL, "threadsim")
    except ValueError:
        pass

    def on_instruction(code, offset):
        if sim.dead or sim.current is None:
            return
        if _th.current_thread() is not sim.current.real or sim.current.no_preempt:
            return
        if sim.tape.coin(sim.opcode_p):
            sim.stats["opcode_preemptions"] += 1
            sim.yield_()
    mon.register_callback(_TOOL, mon.events.INSTRUCTION, on_instruction)
    for f in sim.opcode_funcs:
        code = f.__code__
        mon.set_local_events(_TOOL, code, mon.events.INSTRUCTION)
        _MON_CODES.append(code)


def _uninstall_instruction_events():
    mon = sys.monitoring
    while _MON_CODES:
        mon.set_local_events(_TOOL, _MON_CODES.pop(), 0)
    try:
        mon.register_callback(_TOOL, mon.events.INSTRUCTION, None)
        mon.free_tool_id(_TOOL)
    except ValueError:
        pass


def uninstall():
    sys.settrace(None)
    _uninstall_instruction_events()
    while _PATCHES:
        mod, name, val = _PATCHES.pop()
        setattr(mod, name, val)
    for cls in (SimThread, SimEvent, SimTimer, SimPriorityQueue, SimQueue, SimLifoQueue):
        cls._sim = None
