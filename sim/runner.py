"""bin/check entry point: fan a batch out to worker interpreters, merge, report.

Exit codes: 0 property held on everything explored (KNOWN-FINDING lines allowed);
            1 VIOLATION (one line per oracle with an unlisted violation);
            2 HARNESS-ERROR (a worker crashed, hung or produced no result).
"""
import collections
import importlib
import json
import os
import subprocess
import sys
import time

from . import findings

ROOT = os.path.dirname(os.path.dirname(os.path.abspath(__file__)))
PY = "/venv/bin/python"
HASHSEEDS = ["0", "1", "2", "3"]


def repo_head(src):
    try:
        head = subprocess.run(["git", "-C", src, "rev-parse", "HEAD"], capture_output=True,
                              text=True, timeout=20).stdout.strip()
        dirty = subprocess.run(["git", "-C", src, "status", "--porcelain", "-uno"],
                               capture_output=True, text=True, timeout=20).stdout.strip()
        return head + ("+dirty" if dirty else "")
    except Exception:
        return "unknown"


def main(argv):
    if not argv:
        print("usage: check <Cxx> [quick|thorough]")
        return 2
    prop = argv[0].upper()
    tier = argv[1] if len(argv) > 1 else os.environ.get("VERIF_TIER", "quick")
    if tier not in ("quick", "thorough"):
        tier = "quick"
    verif_seed = int(os.environ.get("VERIF_SEED", "0") or 0)
    src = os.environ.get("PYDCOP_SRC", "/repo")
    sys.path.insert(0, ROOT)
    mod = importlib.import_module("sim.props." + prop.lower())
    n = int(os.environ.get("VERIF_RUNS") or mod.BUDGET[tier][0])
    deadline = float(os.environ.get("VERIF_DEADLINE") or mod.BUDGET[tier][1])
    w = int(os.environ.get("VERIF_WORKERS", "16"))
    w = max(4, (w // 4) * 4)
    t0 = time.time()
    procs = []
    for j in range(w):
        env = dict(os.environ)
        env["PYTHONHASHSEED"] = HASHSEEDS[j % 4]
        env["PYDCOP_SRC"] = src
        env["PYTHONPATH"] = ROOT
        env["PYTHONWARNINGS"] = "ignore"
        env["VERIF_SEED"] = str(verif_seed)
        p = subprocess.Popen([PY, "-m", "sim.worker", prop, tier, str(j), str(w), str(n),
                              str(deadline)], cwd=ROOT, env=env, stdout=subprocess.PIPE,
                             stderr=subprocess.PIPE)
        procs.append(p)
    results, errors = [], []
    for j, p in enumerate(procs):
        try:
            out, err = p.communicate(timeout=max(10.0, deadline + 420 - (time.time() - t0)))
        except subprocess.TimeoutExpired:
            p.kill()
            out, err = p.communicate()
            errors.append(f"worker {j} killed after wall-clock limit")
            continue
        if p.returncode != 0:
            errors.append(f"worker {j} exit {p.returncode}: {err.decode(errors='replace')[-2000:]}")
            continue
        try:
            results.append(json.loads(out.decode()))
        except Exception as e:
            errors.append(f"worker {j} produced no result ({e}): "
                          f"{err.decode(errors='replace')[-1000:]}")
    wall = time.time() - t0
    return report(prop, tier, verif_seed, mod, results, errors, wall, n, w, src)


def report(prop, tier, verif_seed, mod, results, errors, wall, n, w, src):
    runs = sum(r["runs"] for r in results)
    digests = set()
    stats = collections.Counter()
    subspaces = collections.Counter()
    known = collections.Counter()
    for r in results:
        digests.update(r["nontrivial_digests"])
        stats.update(r["stats"])
        subspaces.update(r["subspaces"])
        known.update(r["known"])
    sim_time = sum(r["sim_time"] for r in results)
    steps = sum(r["steps"] for r in results)
    truncated = any(r["truncated"] for r in results)
    # merge violations: per oracle keep the smallest minimised case
    merged = {}
    for r in results:
        for oracle, rec in r["violations"].items():
            rec["hashseed"] = r["hashseed"]
            cur = merged.get(oracle)
            if cur is None:
                merged[oracle] = rec
            else:
                cur_count = cur["count"] + rec["count"]
                size = lambda x: len(json.dumps(x.get("min_case", x["case"]))) + \
                    len(x.get("min_tape", x["tape"]))
                if size(rec) < size(cur):
                    merged[oracle] = rec
                merged[oracle]["count"] = cur_count
    lines = []
    replay_dir = os.path.join(os.environ.get("VERIF_REPLAY_DIR") or os.path.join(ROOT, "replays"), prop)
    head = repo_head(src)
    for oracle, rec in sorted(merged.items()):
        os.makedirs(replay_dir, exist_ok=True)
        path = os.path.join(replay_dir, f"{oracle}-{rec['seed']}.json")
        v = rec.get("min_violation", rec["violation"])
        with open(path, "w") as f:
            json.dump({"version": 1, "property": prop, "oracle": oracle, "tier": tier,
                       "verif_seed": verif_seed, "run": rec["run"], "seed": rec["seed"],
                       "pythonhashseed": rec["hashseed"], "repo_head": head,
                       "case": rec.get("min_case", rec["case"]),
                       "tape": rec.get("min_tape", rec["tape"]),
                       "expected": {"oracle": oracle, "detail": v["detail"],
                                    "features": v["features"]},
                       "original": {"case": rec["case"], "tape": rec["tape"],
                                    "detail": rec["violation"]["detail"]},
                       "occurrences_in_batch": rec["count"],
                       "shrink_steps": rec.get("shrink_steps"),
                       "shrink_error": rec.get("shrink_error")}, f, indent=1)
        lines.append(f"VIOLATION property={prop} replay={path}")
        print(f"  oracle={oracle} occurrences={rec['count']} features={v['features']}")
        print("  " + v["detail"].replace("\n", "\n  ")[:1500])
    # one (unminimised) example per matched known finding, for inspection and for findings/
    examples = {}
    for r in results:
        for kid, ex in r.get("known_examples", {}).items():
            if kid not in examples or ex["run"] < examples[kid]["run"]:
                ex["hashseed"] = r["hashseed"]
                examples[kid] = ex
    for kid, ex in examples.items():
        os.makedirs(replay_dir, exist_ok=True)
        with open(os.path.join(replay_dir, f"{kid}.json"), "w") as f:
            json.dump({"version": 1, "property": prop, "oracle": ex["violation"]["oracle"],
                       "known_finding": kid, "tier": tier, "verif_seed": verif_seed,
                       "run": ex["run"], "seed": ex["seed"], "pythonhashseed": ex["hashseed"],
                       "repo_head": head, "case": ex["case"], "tape": ex["tape"],
                       "expected": {"oracle": ex["violation"]["oracle"],
                                    "detail": ex["violation"]["detail"],
                                    "features": ex["violation"]["features"]}}, f, indent=1)
    all_known = {k["id"]: k for k in findings.load()}
    for kid, cnt in sorted(known.items()):
        k = all_known.get(kid, {})
        print(f"KNOWN-FINDING: property={prop} {kid} {k.get('title', '')} "
              f"(matched {cnt} runs)")
    for ln in lines:
        print(ln)
    for e in errors:
        print("HARNESS-ERROR " + e)
    samples = [s for r in results for s in r["samples"]][:3]
    level = getattr(mod, "LEVEL", "exploration")
    fault_counts = {k: v for k, v in stats.items()
                    if k.startswith("fault_") or k in ("buffered_before_start", "reinjected",
                                                       "late_start_with_pending", "clock_jumps",
                                                       "wire_roundtrips", "preemptions")}
    evidence = {
        "property_id": prop, "tier": tier, "seed": verif_seed, "level": level,
        "wall_s": round(wall, 2), "violations": len(lines),
        "coverage": {
            "evaluations": runs,
            "distinct_nontrivial": len(digests),
            "rule": mod.RULE,
            "samples": samples if samples else [{"note": "no non-trivial sample recorded"}],
            "runs_requested": n, "workers": w, "truncated": truncated,
            "runs_per_hour": int(runs / wall * 3600) if wall > 0 else 0,
            "simulated_seconds": round(sim_time, 3), "scheduler_steps": steps,
            "choice_points": sum(r["choice_points"] for r in results),
            "fault_counts": fault_counts,
            "probes": {k: v for k, v in stats.items() if k not in fault_counts},
            "subspaces": dict(subspaces),
            "sut_exceptions": sum(r["sut_errors"] for r in results),
            "violating_runs": sum(r["violating_runs"] for r in results),
            "known_findings_matched": dict(known),
            "pythonhashseeds": HASHSEEDS,
            "components_real": getattr(mod, "REAL", []),
            "components_stub": getattr(mod, "STUB", []),
            "engine": getattr(mod, "ENGINE", "A"),
            "repo_head": head,
            "harness_errors": errors,
            "exhaustive": False,
        },
        "assumptions": getattr(mod, "ASSUMPTIONS", []),
    }
    extra = getattr(mod, "evidence_extra", None)
    if extra:
        evidence["coverage"].update(extra(stats, results))
    evdir = os.environ.get("VERIF_EVIDENCE_DIR") or os.path.join(ROOT, "evidence")
    os.makedirs(evdir, exist_ok=True)
    with open(os.path.join(evdir, f"{prop}.json"), "w") as f:
        json.dump(evidence, f, indent=1, default=str)
    print(f"{prop} {tier}: {runs} runs ({len(digests)} distinct non-trivial) in {wall:.1f}s, "
          f"{len(lines)} violation(s), {sum(known.values())} known-finding hit(s)"
          + (", TRUNCATED" if truncated else ""))
    if lines:
        return 1            # a violation found by the surviving workers stands
    if errors:
        return 2
    if runs == 0:
        print("HARNESS-ERROR no run executed")
        return 2
    return 0
