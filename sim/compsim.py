"""Engine A: computation-level discrete-event simulator.

Real code: the computations (pydcop.algorithms.*, infrastructure.computations).
Stub: agent, Messaging, transport, discovery.  The stub honours what Messaging
guarantees — re-injections (priority < 20) before ordinary algorithm messages, FIFO per
channel — and nothing more.  Every decision is a tape draw over a stably sorted list of
enabled events, so a run is a function of (computations, config, tape).
"""
import collections
import json
import traceback

ALGO_PRIO = 20


class Observer:
    """Default no-op observer; property checks subclass / duck-type this."""

    def on_post(self, sim, src, dst, msg, prio):
        pass

    def on_deliver(self, sim, src, dst, msg, reinjected):
        pass

    def after_event(self, sim, event):
        pass

    def on_start(self, sim, name):
        pass

    def on_finished(self, sim, name):
        pass

    def on_value(self, sim, name, val, cost):
        pass

    def on_cycle(self, sim, name, count):
        pass


class _PeriodicStub:
    """Stands for Agent.set_periodic_action / remove_periodic_action."""

    def __init__(self, sim, owner):
        self.sim = sim
        self.owner = owner

    def set_periodic_action(self, period, cb):
        assert period is not None and cb is not None
        self.sim.timers[(self.owner, self.sim.timer_seq)] = [period, self.sim.now, cb,
                                                             self.sim.timer_seq]
        self.sim.timer_seq += 1
        return cb

    def remove_periodic_action(self, handle):
        for key, t in list(self.sim.timers.items()):
            if key[0] == self.owner and t[2] is handle:
                del self.sim.timers[key]
                return
        raise KeyError(handle)


class CompSim:
    def __init__(self, tape, comps, mode="async", policy="uniform", wire=False,
                 observers=(), max_events=100000, loss=0.0, dup=0.0, max_time=None,
                 start_all_first=False):
        self.tape = tape
        self.comps = comps                      # OrderedDict name -> computation
        self.names = sorted(comps)
        self.mode = mode                        # "async" | "arrival"
        self.policy = policy
        self.wire = wire
        self.observers = list(observers)
        self.max_events = max_events
        self.max_time = max_time
        self.loss = loss
        self.dup = dup
        self.started = set()
        self.finished = collections.Counter()
        self.finish_event = {}
        self.channels = {}                      # (src, dst) -> deque[(msg, seq)]
        self.inbox = {n: collections.deque() for n in self.names}   # arrival mode
        self.reinject = {n: collections.deque() for n in self.names}
        self.timers = {}
        self.timer_seq = 0
        self.now = 0.0
        self.events = 0
        self.post_seq = 0
        self.error = None                       # (where, exception repr, traceback)
        self.current = None                     # computation being executed
        self.stats = collections.Counter()
        self.parties = set()
        self.start_all_first = start_all_first
        self._starve = None
        self._starve_left = 0
        self.unknown_dest = []
        for name, c in comps.items():
            c.message_sender = self._sender
            c.periodic_action_handler = _PeriodicStub(self, name)
            self._wrap(name, c)

    # -- observation wrappers (same places Agent.add_computation wraps) -----
    def _wrap(self, name, c):
        orig_fin = c.finished

        def finished(*a, **k):
            orig_fin(*a, **k)
            self.finished[name] += 1
            self.finish_event.setdefault(name, self.events)
            self.tape.note("fin", name)
            for o in self.observers:
                o.on_finished(self, name)
        c.finished = finished
        if hasattr(c, "_on_value_selection"):
            orig_val = c._on_value_selection

            def on_val(val, cost, cycle, *a, **k):
                orig_val(val, cost, cycle, *a, **k)
                self.tape.note("val", name, repr(val))
                for o in self.observers:
                    o.on_value(self, name, val, cost)
            c._on_value_selection = on_val
        if hasattr(c, "_on_new_cycle"):
            orig_cyc = c._on_new_cycle

            def on_cyc(count, *a, **k):
                orig_cyc(count, *a, **k)
                for o in self.observers:
                    o.on_cycle(self, name, count)
            c._on_new_cycle = on_cyc

    # -- the injected message sender -----------------------------------------
    def _sender(self, src, dst, msg, prio=None, on_error=None):
        prio = ALGO_PRIO if prio is None else prio
        self.post_seq += 1
        self.stats["posted"] += 1
        self.tape.note("post", src, dst, getattr(msg, "type", None), prio)
        if dst not in self.comps:
            self.unknown_dest.append((src, dst, msg))
            return
        if self.wire and prio >= ALGO_PRIO:
            msg = wire_roundtrip(msg)
            self.stats["wire_roundtrips"] += 1
        for o in self.observers:
            o.on_post(self, src, dst, msg, prio)
        if prio < ALGO_PRIO:
            # re-injection by start()/pause(False): goes ahead of algorithm messages
            self.reinject[dst].append((src, msg))
            self.stats["reinjected"] += 1
            return
        self.parties.add(src)
        self.parties.add(dst)
        if self.loss and self.tape.coin(self.loss):
            self.stats["fault_loss"] += 1
            return
        copies = 1
        if self.dup and self.tape.coin(self.dup):
            self.stats["fault_dup"] += 1
            copies = 2
        for _ in range(copies):
            if self.mode == "arrival":
                self.inbox[dst].append((src, msg, self.post_seq))
            else:
                self.channels.setdefault((src, dst), collections.deque()).append(
                    (msg, self.post_seq))

    # -- enabled events ------------------------------------------------------
    def enabled(self):
        ev = []
        for n in self.names:
            if n not in self.started:
                ev.append(("start", n))
        if self.start_all_first and ev:
            return ev
        for n in self.names:
            if self.reinject[n]:
                ev.append(("reinject", n))
        if self.mode == "arrival":
            for n in self.names:
                if self.inbox[n] and not self.reinject[n]:
                    ev.append(("deliver", n))
        else:
            for (src, dst) in sorted(self.channels):
                if self.channels[(src, dst)] and not self.reinject[dst]:
                    ev.append(("deliver", src, dst))
        for key in sorted(self.timers, key=lambda k: self.timers[k][3]):
            period, last, cb, _ = self.timers[key]
            if self.now - last >= period:
                ev.append(("tick", key))
        return ev

    def _target(self, e):
        return e[-1] if e[0] != "tick" else e[1][0]

    def _choose(self, ev):
        pol = self.policy
        if len(ev) == 1:
            return ev[0]
        if pol == "lockstep":
            # prefer the computations that are the furthest behind
            def cyc(e):
                c = self.comps[self._target(e)]
                try:
                    return c.cycle_count
                except Exception:
                    return 0
            lo = min(cyc(e) for e in ev)
            ev = [e for e in ev if cyc(e) == lo]
        elif pol == "starve":
            if self._starve_left <= 0:
                self._starve = self.tape.pick(self.names)
                self._starve_left = 1 + self.tape.draw(40)
                self.stats["fault_stall"] += 1
            self._starve_left -= 1
            sub = [e for e in ev if self._target(e) != self._starve]
            if sub:
                ev = sub
        elif pol == "late":
            sub = [e for e in ev if e[0] != "start"]
            if sub and self.tape.coin(0.85):
                ev = sub
        elif pol == "dfs":
            if self.tape.coin(0.8):
                return ev[-1] if self.mode == "arrival" else self._newest(ev)
        return ev[self.tape.draw(len(ev))]

    def _newest(self, ev):
        best, best_seq = ev[0], -1
        for e in ev:
            if e[0] == "deliver":
                seq = self.channels[(e[1], e[2])][0][1]
                if seq > best_seq:
                    best, best_seq = e, seq
        return best

    # -- execution -----------------------------------------------------------
    def step(self):
        """Run one event; False when quiescent."""
        ev = self.enabled()
        if not ev:
            if self.timers:
                nxt = min(last + period for period, last, _, _ in self.timers.values())
                if self.max_time is not None and nxt > self.max_time:
                    return False
                # timer jitter: the period is documented as non-strict
                self.now = max(self.now, nxt) + self.tape.draw(4) * 0.01
                self.stats["clock_jumps"] += 1
                return True
            return False
        e = self._choose(ev)
        self.events += 1
        self.now += 0.001
        self.tape.note(e[0], *map(str, e[1:]))
        try:
            if e[0] == "start":
                n = e[1]
                self.started.add(n)
                self.current = n
                if any(q for (s, d), q in self.channels.items() if d == n) or self.inbox[n]:
                    self.stats["late_start_with_pending"] += 1
                for o in self.observers:
                    o.on_start(self, n)
                self.comps[n].start()
            elif e[0] == "reinject":
                n = e[1]
                src, msg = self.reinject[n].popleft()
                self._deliver(src, n, msg, True)
            elif e[0] == "deliver":
                if self.mode == "arrival":
                    n = e[1]
                    src, msg, _ = self.inbox[n].popleft()
                else:
                    src, n = e[1], e[2]
                    msg, _ = self.channels[(src, n)].popleft()
                self._deliver(src, n, msg, False)
            elif e[0] == "tick":
                t = self.timers[e[1]]
                t[1] = self.now
                self.current = e[1][0]
                self.stats["ticks"] += 1
                t[2]()
        except Exception as exc:  # the real agent thread would die here
            self.error = (e, repr(exc), traceback.format_exc())
            self.current = None
            return False
        self.current = None
        for o in self.observers:
            o.after_event(self, e)
        return True

    def _deliver(self, src, dst, msg, reinjected):
        self.current = dst
        self.stats["delivered"] += 1
        if dst not in self.started:
            self.stats["buffered_before_start"] += 1
        for o in self.observers:
            o.on_deliver(self, src, dst, msg, reinjected)
        self.comps[dst].on_message(src, msg, self.now)

    def run(self, stop=None):
        """Run to quiescence, error, cap, or until stop(sim) is true.
        Returns 'quiescent' | 'error' | 'cap' | 'stopped'."""
        while True:
            if self.events >= self.max_events:
                return "cap"
            if self.max_time is not None and self.now >= self.max_time:
                return "time"
            if stop is not None and stop(self):
                return "stopped"
            if not self.step():
                return "error" if self.error else "quiescent"

    def pending(self):
        """messages still undelivered: list of (src, dst, type)"""
        out = []
        for (s, d), q in self.channels.items():
            out += [(s, d, getattr(m, "type", None)) for m, _ in q]
        for d, q in self.inbox.items():
            out += [(s, d, getattr(m, "type", None)) for s, m, _ in q]
        for d, q in self.reinject.items():
            out += [(s, d, getattr(m, "type", None)) for s, m in q]
        return out


def wire_roundtrip(msg):
    from pydcop.utils.simple_repr import simple_repr, from_repr
    return from_repr(json.loads(json.dumps(simple_repr(msg))))


POLICIES = ("uniform", "uniform", "lockstep", "starve", "late", "dfs")


def draw_config(tape, policies=POLICIES, modes=("async", "arrival"), wire_p=0.0):
    return {"mode": tape.pick(list(modes)), "policy": tape.pick(list(policies)),
            "wire": tape.coin(wire_p)}
