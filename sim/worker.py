"""Worker: runs a slice of a batch in one fresh interpreter (PYTHONHASHSEED pinned by the
parent) and prints one JSON summary on stdout.

usage: python -m sim.worker PROP TIER J W N DEADLINE_S
Run i of the batch is handled by worker i % W; its hash-seed class is i % 4 == J % 4
(W is a multiple of 4) so results do not depend on W.
"""
import collections
import faulthandler
import importlib
import io
import json
import os
import random
import signal
import sys
import time
import contextlib

from .tape import Tape, run_seed
from .execute import run_one, make_case
from . import findings



def main(argv):
    prop, tier = argv[0], argv[1]
    j, w, n, deadline_s = int(argv[2]), int(argv[3]), int(argv[4]), float(argv[5])
    verif_seed = int(os.environ.get("VERIF_SEED", "0") or 0)
    faulthandler.enable()
    faulthandler.dump_traceback_later(deadline_s + 360, exit=True)
    mod = importlib.import_module("sim.props." + prop.lower())
    run_timeout = getattr(mod, "RUN_TIMEOUT_S", 30)
    t0 = time.time()
    res = {"worker": j, "runs": 0, "nontrivial_digests": [], "stats": collections.Counter(),
           "subspaces": collections.Counter(), "sim_time": 0.0, "steps": 0,
           "violations": {}, "samples": [], "truncated": False, "sut_errors": 0,
           "hashseed": os.environ.get("PYTHONHASHSEED"), "violating_runs": 0,
           "choice_points": 0, "known": {}, "unknown_violations": 0, "known_examples": {}}
    digests = set()
    kept = {}
    known = findings.load()
    for i in range(j, n, w):
        if time.time() - t0 > deadline_s:
            res["truncated"] = True
            break
        seed = run_seed(verif_seed, prop, tier, i)
        case = make_case(mod, seed, tier, i, verif_seed)
        tape = Tape(seed)
        t_run = time.time()
        out = run_one(mod, case, tape, run_timeout)
        t_run = time.time() - t_run
        res["runs"] += 1
        res["stats"].update(out["stats"])
        res["subspaces"][out.get("subspace", "")] += 1
        res["sim_time"] += out.get("sim_time", 0.0)
        res["steps"] += out.get("steps", 0)
        res["choice_points"] += tape.choice_points
        if out.get("sut_error"):
            res["sut_errors"] += 1
        if out["nontrivial"]:
            digests.add(tape.digest()[:20])
        if len(res["samples"]) < 1 and out["nontrivial"]:
            res["samples"].append({"run": i, "seed": seed, "case": case,
                                   "first_decisions": tape.rec[:40],
                                   "subspace": out.get("subspace", "")})
        if out["violations"]:
            res["violating_runs"] += 1
        for v in out["violations"]:
            kf = findings.match(known, prop, v)
            if kf is not None:
                res["known"][kf] = res["known"].get(kf, 0) + 1
                if kf not in res["known_examples"]:
                    res["known_examples"][kf] = {"run": i, "seed": seed, "case": case,
                                                 "tape": list(tape.rec), "violation": v}
                continue
            res["unknown_violations"] += 1
            rec = kept.get(v["oracle"])
            if rec is None:
                kept[v["oracle"]] = {"run": i, "seed": seed, "case": case,
                                     "tape": list(tape.rec), "violation": v, "count": 1,
                                     "run_wall_s": round(t_run, 2)}
            else:
                rec["count"] += 1
    # minimise the first unknown violation of each oracle (bounded, best effort)
    from . import shrink
    shrink.ACCEPT = lambda v: findings.match(known, prop, v) is None
    shrink_total = min(60.0, max(10.0, deadline_s * 0.5))
    for oracle, rec in sorted(kept.items()):
        if getattr(mod, "SHRINK", True) and shrink_total > 1 and rec.get("run_wall_s", 0) < 8.0:
            ts = time.time()
            try:
                rec["min_case"], rec["min_tape"], rec["min_violation"], rec["shrink_steps"] = \
                    shrink.minimise(mod, rec["case"], rec["tape"], rec["violation"],
                                    shrink_total / max(1, len(kept)), run_timeout)
            except Exception as e:  # shrinking is best effort; the unshrunk run stays valid
                rec["shrink_error"] = repr(e)
            shrink_total -= time.time() - ts
        res["violations"][oracle] = rec
    res["nontrivial_digests"] = sorted(digests)
    res["wall_s"] = time.time() - t0
    faulthandler.cancel_dump_traceback_later()
    sys.stdout.write(json.dumps(res))
    sys.stdout.flush()


if __name__ == "__main__":
    main(sys.argv[1:])
