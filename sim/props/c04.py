"""C04 — a cycle with no MGM/MGM2 move means the assignment is 1-opt."""
from . import common, localsearch as ls

ID = "C04"
ENGINE = "A"
RULE = ("same workload as C03 (mgm|mgm2, swarm parameters, FIFO schedules, all random "
        "choices on the tape) with longer stop_cycle; non-trivial = at least one stagnant "
        "complete cycle (A_k == A_k+1) was observed and checked for 1-optimality by brute "
        "force; distinct = SHA-256 of decision-and-event log")


def generate(rng, tier):
    return ls.gen_localsearch(rng, tier, ("mgm", "mgm2"), stop_range=(4, 14))


def execute(case, tape):
    out = common.outcome()
    truth, hist, sim, status = ls.run(case, tape)
    feats = ls.features(case, sim)
    out["subspace"] = f"{case['algo']}/{case['objective']}/vc={feats['varcosts']}"
    common.finish_stats(out, sim, tape)
    if status == "error":
        out["sut_error"] = sim.error[1]
        out["stats"]["inconclusive_sut_error"] += 1
    A = ls.cycle_assignments(truth, hist, sim)
    stagnant = 0
    for k in range(len(A) - 1):
        if A[k] != A[k + 1]:
            continue
        stagnant += 1
        ok, why = truth.is_one_opt(A[k])
        if not ok:
            var, val, cur, new = why
            # a committed MGM2 pair that was refused the go in this very cycle
            feats["blocked_pair"] = any(cyc == k + 1 and not go for (_, _, cyc, go) in hist.go)
            out["violations"].append(common.violation(
                "stagnant_is_1opt", f"cycle {k + 1}->{k + 2} had no move on {A[k]} (cost {cur}) "
                f"but {var}={val!r} alone gives {new}", **feats))
            break
    out["stats"]["stagnant_cycles"] += stagnant
    out["nontrivial"] = stagnant > 0 and common.basic_nontrivial(sim, tape)
    return out


BUDGET = {"quick": (80000, 75), "thorough": (1600000, 1500)}
REAL = ["pydcop.algorithms.mgm", "pydcop.algorithms.mgm2", "pydcop.dcop.relations",
        "pydcop.computations_graph.constraints_hypergraph", "pydcop.infrastructure.computations"]
STUB = ["Agent", "Messaging", "transport", "discovery (replaced by compsim FIFO channel model)"]
ASSUMPTIONS = ["channels reliable and FIFO per (sender, destination)",
               "logical cycle assignments A_k as in C03",
               "1-opt decided by brute force on the ground-truth global cost (constraints + "
               "variables' own costs)"]
LEVEL = "exploration"
LEVEL_TEXT = ("Seeded search over DCOPs, parameters, FIFO schedules and random choices of "
              "MGM/MGM2; every stagnant cycle boundary is checked for 1-optimality against a "
              "brute-force best response computed outside pyDcop.")
LEVEL_NOTE = "Trusted: compsim FIFO channel model, ground truth from the case tables, n<=7."
TECHNIQUE = "deterministic simulation: seeded schedule search + per-cycle history oracle"
DESIGN_REF = "DESIGN.md §7 C04"
