"""C10 — every value an algorithm selects lies in the variable's domain."""
from .. import gen
from ..compsim import Observer
from ..truth import Truth
from . import common

ID = "C10"
ENGINE = "A"
ALGOS = ("dpop", "syncbb", "mgm", "mgm2", "dsa", "adsa", "dsatuto", "dba", "gdba", "maxsum",
         "amaxsum")
RULE = ("random DCOP (n<=6, dom<=3, str, shifted int and mixed str/int domains, variable costs, initial values) "
        "x each of the 11 shipped algorithms with swarm parameters (noise/damping at defaults and "
        "0) x tape-drawn schedule, bounded by an event cap; the invariant is evaluated at every "
        "value_selection; non-trivial = >=1 value selection checked, >=2 parties exchanged "
        "messages, >=1 choice point; distinct = SHA-256 of decision-and-event log")


def generate(rng, tier):
    algo = rng.choice(ALGOS)
    binary_only = algo == "syncbb"
    case = gen.gen_dcop(
        rng, n_range=(1, 6), dom_range=(1, 3),
        shapes=("random", "random", "tree", "chain", "star", "clique", "components"),
        arity3_p=0.0 if binary_only else 0.2, unary_p=0.0 if binary_only else 0.2,
        varcost_p=rng.choice([0.0, 0.5]), cost_classes=("small", "signed", "float"),
        initial_p=0.3, str_domain_p=0.3, max_space=1000, mixed_domain_p=0.15,
        objective="min" if algo in ("dba",) else None)
    p = {}
    if algo in ("mgm", "mgm2", "dsa"):
        p["stop_cycle"] = rng.randint(1, 8)
    if algo == "mgm2":
        p["threshold"] = rng.choice([0.2, 0.5, 0.8])
        p["favor"] = rng.choice(["unilateral", "no", "coordinated"])
    if algo in ("dsa", "adsa"):
        p["variant"] = rng.choice(["A", "B", "C"])
    if algo == "adsa":
        p["period"] = rng.choice([0.1, 0.5])
    if algo in ("maxsum", "amaxsum"):
        if rng.random() < 0.5:
            p = {"damping": rng.choice([0.0, 0.5, 0.9]), "noise": rng.choice([0.0, 0.01, 0.5]),
                 "start_messages": rng.choice(["leafs", "leafs_vars", "all"])}
    if algo == "gdba":
        p = {"modifier": rng.choice(["A", "M"]), "violation": rng.choice(["NZ", "NM", "MX"]),
             "increase_mode": rng.choice(["E", "R", "C", "T"])}
    if algo == "dba":
        p = {"max_distance": rng.randint(2, 6)}
    case["algo"] = algo
    case["params"] = p
    return case


class DomainWatch(Observer):
    def __init__(self, truth):
        self.truth = truth
        self.bad = None
        self.checked = 0

    def on_value(self, sim, name, val, cost):
        self.checked += 1
        if self.bad is None and val is not None:
            dom = sim.comps[name].variable.domain
            try:
                ok = val in dom
            except Exception:
                ok = False
            if not ok:
                self.bad = (f"{name} selected {val!r} ({type(val).__name__}) which is not in its "
                            f"domain {list(dom)} (event {sim.events})")


def execute(case, tape):
    out = common.outcome()
    truth = Truth(case)
    algo = case["algo"]
    watch = DomainWatch(truth)
    kw = {}
    if algo == "adsa":
        kw = dict(max_time=4.0)
    sim = common.engine_a(case, tape, observers=[watch], max_events=700, **kw)
    status = sim.run(stop=lambda s: watch.bad is not None)
    common.finish_stats(out, sim, tape)
    feats = dict(algo=algo)
    out["subspace"] = algo
    if status == "error":
        out["sut_error"] = sim.error[1]
        out["stats"]["inconclusive_sut_error"] += 1
        out["stats"]["sut_error_" + algo] += 1
    # also the value reported at the end
    if watch.bad is None:
        for n, c in sim.comps.items():
            if hasattr(c, "variable") and hasattr(c, "current_value"):
                v = c.current_value
                if v is not None and v not in c.variable.domain:
                    watch.bad = f"{n} reports current_value {v!r} not in {list(c.variable.domain)}"
    if watch.bad:
        out["violations"].append(common.violation("value_in_domain", watch.bad, **feats))
    out["stats"]["value_selections_checked"] += watch.checked
    out["nontrivial"] = watch.checked > 0 and common.basic_nontrivial(sim, tape)
    return out


BUDGET = {"quick": (40000, 60), "thorough": (800000, 900)}
REAL = ["pydcop.algorithms.{dpop,syncbb,mgm,mgm2,dsa,adsa,dsatuto,dba,gdba,maxsum,amaxsum}",
        "pydcop.infrastructure.computations (VariableComputation.value_selection)",
        "pydcop.dcop.relations", "pydcop.computations_graph.*"]
STUB = ["Agent (periodic actions re-implemented by the compsim timer stub)", "Messaging",
        "transport", "discovery"]
ASSUMPTIONS = ["channels reliable and FIFO per (sender, destination)",
               "runs of non-terminating algorithms are cut at an event cap; the invariant is "
               "checked on every value_selection before the cap",
               "a run in which the algorithm raises is counted inconclusive here (completion is "
               "decided by C01/C02/C05/C07)"]
LEVEL = "exploration"
LEVEL_TEXT = ("Seeded search over DCOPs, the 11 shipped algorithms, their parameters and "
              "schedules; invariant at every value_selection(val, cost): val is None or a "
              "member of the variable's domain.")
LEVEL_NOTE = "Trusted: compsim channel/timer model; the observation point is the funnel all algorithms use."
TECHNIQUE = "deterministic simulation: seeded schedule search + invariant at every value_selection"
DESIGN_REF = "DESIGN.md §7 C10"
