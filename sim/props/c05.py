"""C05 — Max-Sum without damping is exact on acyclic factor graphs."""
import collections

from .. import gen
from ..compsim import Observer
from ..truth import Truth
from . import common

ID = "C05"
ENGINE = "A"
RULE = ("forest-shaped factor graphs (binary/3-ary/unary factors, variable costs, n<=7, dom<=3) "
        "whose optimum is unique (brute force; non-unique draws are re-drawn) x maxsum|amaxsum "
        "with damping=0, noise=0 and swarm stability/start_messages x tape-drawn start order "
        "and FIFO delivery; non-trivial = >=2 parties exchanged cost messages, >=1 choice "
        "point, optimum oracle evaluated; distinct = SHA-256 of decision-and-event log")

ROUNDS_EXTRA = 8


def _draw_structured(rng, tier):
    """Soft equal/different couplings of a common magnitude plus a few unary preferences on a
    chain or tree (graph-colouring-like): information has to travel several hops and messages
    are often exact negations / repetitions of earlier ones."""
    n = rng.randint(3, 8)
    names = [f"v{i}" for i in range(n)]
    k = rng.choice([2, 2, 3])
    objective = rng.choice(["min", "max"])
    domains = {"d_" + x: list(range(k)) for x in names}
    variables = [{"name": x, "domain": "d_" + x, "initial": None, "cost": None} for x in names]
    if rng.random() < 0.7:
        order = names[:]
        rng.shuffle(order)
        edges = [(order[i], order[i + 1]) for i in range(n - 1)]
    else:
        edges = gen.edges_for_shape(rng, names, "tree")
    w = rng.choice([1, 2, 4])
    constraints = []
    for i, (a, b) in enumerate(edges):
        eq = rng.random() < 0.5
        table = [(w if (x == y) == eq else 0) for x in range(k) for y in range(k)]
        constraints.append({"name": f"c{i}", "scope": [a, b], "table": table,
                            "render": rng.choice(["matrix", "expr"])})
    for x in rng.sample(names, rng.randint(1, min(3, n))):
        table = [rng.choice([0, 2, 10]) for _ in range(k)]
        if rng.random() < 0.5:
            constraints.append({"name": f"u_{x}", "scope": [x], "table": table, "render": "matrix"})
        else:
            for v in variables:
                if v["name"] == x:
                    v["cost"] = {"kind": rng.choice(["dict", "func"]), "costs": table}
    return {"objective": objective, "domains": domains, "variables": variables,
            "constraints": constraints, "shape": "structured", "cost_class": "structured"}


def _draw(rng, tier):
    if rng.random() < 0.3:
        return _draw_structured(rng, tier)
    big = tier == "thorough"
    n = rng.randint(1, 7 if big else 6)
    names = [f"v{i}" for i in range(n)]
    objective = rng.choice(["min", "max"])
    cls = rng.choice(["wide", "wide", "offset", "float"])
    domains, variables = {}, []
    for name in names:
        size = rng.randint(1, 3)
        if rng.random() < 0.15:
            vals = [chr(ord("a") + i) for i in range(size)]
        else:
            start = rng.choice([0, 0, 1, 5])
            vals = list(range(start, start + size))
        domains["d_" + name] = vals

        def cost():
            if cls == "wide":
                return rng.randrange(0, 100)
            if cls == "offset":
                return 100 + rng.randrange(0, 11)
            return rng.randrange(-200, 201) / 4.0
        vc = None
        if rng.random() < 0.3:
            vc = {"kind": rng.choice(["dict", "func"]), "costs": [cost() for _ in vals]}
        variables.append({"name": name, "domain": "d_" + name,
                          "initial": rng.choice(vals) if rng.random() < 0.2 else None,
                          "cost": vc})
    size = {v["name"]: len(domains[v["domain"]]) for v in variables}
    scopes = gen.tree_factor_scopes(rng, names)
    for name in names:
        if rng.random() < 0.2:
            scopes.append([name])
    constraints = []
    for i, scope in enumerate(scopes):
        scope = list(scope)
        rng.shuffle(scope)
        k = 1
        for x in scope:
            k *= size[x]
        if cls == "wide":
            table = [rng.randrange(0, 100) for _ in range(k)]
        elif cls == "offset":
            table = [100 + rng.randrange(0, 11) for _ in range(k)]
        else:
            table = [rng.randrange(-200, 201) / 4.0 for _ in range(k)]
        constraints.append({"name": f"c{i}", "scope": scope, "table": table,
                            "render": rng.choice(["matrix", "expr"])})
    return {"objective": objective, "domains": domains, "variables": variables,
            "constraints": constraints, "shape": "forest", "cost_class": cls}


class Informed(Observer):
    """On a tree, belief propagation is exact once every directed edge u->v has carried a message
    sent after u had received an (inductively) informed message from each of its other
    neighbours.  This observer tracks that condition from the posts and deliveries alone, so a
    wrong result can be attributed either to a protocol that never propagated the information
    (some edge never informed) or to the message/selection computations themselves."""

    def __init__(self, neighbors):
        self.nb = neighbors                          # node -> set of neighbour nodes
        self.posted = collections.Counter()          # edge -> number of posts
        self.delivered = collections.Counter()
        self.first_informed = {}                     # edge -> index of the first informed post
        self.informed_in = collections.defaultdict(set)   # node -> neighbours it is informed by
        self.buffered = collections.defaultdict(list)     # receptions before the start of dst

    def on_post(self, sim, src, dst, msg, prio):
        if prio < 20 or dst not in self.nb.get(src, ()):
            return                                   # re-injection of a buffered reception
        e = (src, dst)
        if e not in self.first_informed and self.nb[src] - {dst} <= self.informed_in[src]:
            self.first_informed[e] = self.posted[e]
        self.posted[e] += 1

    def on_deliver(self, sim, src, dst, msg, reinjected):
        if dst not in self.nb.get(src, ()):
            return
        e = (src, dst)
        if not reinjected:
            good = e in self.first_informed and self.delivered[e] >= self.first_informed[e]
            self.delivered[e] += 1
            if dst not in sim.started:
                # buffered by the computation until it starts; handled when re-injected
                self.buffered[dst].append((src, good))
                return
        else:
            for k, (s_, good) in enumerate(self.buffered[dst]):
                if s_ == src:
                    del self.buffered[dst][k]
                    break
            else:
                return
        if good:
            self.informed_in[dst].add(src)

    def all_informed(self):
        return all(self.nb[u] <= self.informed_in[u] for u in self.nb)


def generate(rng, tier):
    for _ in range(30):
        case = _draw(rng, tier)
        _, count, _ = Truth(case).optimum()
        if count == 1:
            break
    else:
        case["not_unique"] = True
    case["algo"] = rng.choice(["maxsum", "amaxsum"])
    case["params"] = {"damping": 0.0, "noise": 0.0,
                      "damping_nodes": rng.choice(["vars", "factors", "both", "none"]),
                      "stability": rng.choice([0.1, 0.0, 0.0]),
                      "start_messages": rng.choice(["leafs", "leafs_vars", "all"])}
    return case


def execute(case, tape):
    out = common.outcome()
    truth = Truth(case)
    p = case["params"]
    feats = dict(algo=case["algo"], objective=case["objective"], stability=p["stability"],
                 start_messages=p["start_messages"], cost_class=case["cost_class"])
    out["subspace"] = (f"{case['algo']}/{case['objective']}/stab={p['stability']}/"
                       f"{p['start_messages']}/{case['cost_class']}")
    if case.get("not_unique"):
        out["stats"]["discarded_not_unique"] += 1
        return out
    n_nodes = len(case["variables"]) + len(case["constraints"])
    rounds = 2 * n_nodes + ROUNDS_EXTRA
    informed = Informed({})
    sim = common.engine_a(case, tape, observers=[informed],
                          max_events=400 * n_nodes * n_nodes + 4000)
    informed.nb.update({n: set(c.neighbors) for n, c in sim.comps.items()})
    feats["mode"] = sim.config["mode"]
    if case["algo"] == "maxsum":
        connected = [c for c in sim.comps.values() if c.neighbors]

        def enough(s):
            return len(s.started) == len(s.names) and \
                all(c.cycle_count >= rounds for c in connected)
        status = sim.run(stop=enough if connected else None)
    else:
        status = sim.run()
    common.finish_stats(out, sim, tape)
    if status == "error":
        out["sut_error"] = sim.error[1]
        out["violations"].append(common.violation(
            "no_exception", f"{sim.error[0]}: {sim.error[1]}\n{sim.error[2][-1500:]}",
            exc=sim.error[1].split("(")[0], **feats))
        return out
    if status == "cap":
        out["violations"].append(common.violation(
            "converges", f"still exchanging messages after {sim.events} events", **feats))
        return out
    if case["algo"] == "maxsum" and status == "quiescent" and connected:
        out["violations"].append(common.violation(
            "rounds_progress", f"synchronous max-sum went quiescent before {rounds} rounds: "
            f"{ {c.name: c.cycle_count for c in connected} }", **feats))
        return out
    best, count, arg = truth.optimum()
    asg = common.assignment(sim)
    out["stats"]["oracle_evaluated"] += 1
    cost_msgs = sim.stats["delivered"]
    all_informed = informed.all_informed()
    out["stats"]["all_edges_informed" if all_informed else "some_edge_never_informed"] += 1
    if asg != arg:
        feats["all_edges_informed"] = all_informed
        wrong = {k: (asg.get(k), arg[k]) for k in arg if asg.get(k) != arg[k]}
        # a variable linked to no factor and without own costs has no preferred value
        oracle = "exact_on_tree"
        linked = {x for c in case["constraints"] for x in c["scope"]}
        initial = {v["name"] for v in case["variables"] if v.get("initial") is not None}
        feats["wrong_vars"] = ("isolated_with_initial"
                               if all(k not in linked and k in initial for k in wrong)
                               else "linked_or_free")
        out["violations"].append(common.violation(
            oracle, f"selected {asg} (cost {truth.cost(asg) if all(asg.get(k) in truth.dom[k] for k in arg) else '?'}) "
            f"but the unique optimum is {arg} (cost {best}); differing (got, want): {wrong}; "
            f"{cost_msgs} messages delivered", **feats))
    out["nontrivial"] = common.basic_nontrivial(sim, tape)
    return out


BUDGET = {"quick": (48000, 75), "thorough": (1200000, 1500)}
REAL = ["pydcop.algorithms.maxsum", "pydcop.algorithms.amaxsum",
        "pydcop.infrastructure.computations (SynchronousComputationMixin)",
        "pydcop.computations_graph.factor_graph", "pydcop.dcop.relations"]
STUB = ["Agent", "Messaging", "transport", "discovery (replaced by compsim FIFO channel model)"]
ASSUMPTIONS = ["channels reliable and FIFO per (sender, destination)",
               "uniqueness of the optimum decided by brute force; non-unique instances discarded",
               "maxsum is observed after every computation completed 2*|nodes|+8 rounds (far "
               "beyond the factor-graph diameter); amaxsum at exact quiescence"]
LEVEL = "exploration"
LEVEL_TEXT = ("Seeded search over tree-structured DCOPs with a unique optimum, parameters the "
              "property leaves free, start orders and FIFO deliveries; the selected assignment "
              "is compared with the brute-force unique optimum.")
LEVEL_NOTE = ("Trusted: compsim FIFO channel model, brute-force ground truth; sub-space labels "
              "(stability, start_messages, cost class) travel with each violation.")
TECHNIQUE = "deterministic simulation: seeded schedule search + unique-optimum oracle"
DESIGN_REF = "DESIGN.md §7 C05"
