"""C09 — DBA declares termination only on a satisfying assignment."""
import itertools

from .. import gen
from ..compsim import Observer
from ..truth import Truth
from . import common

ID = "C09"
ENGINE = "A"
RULE = ("connected CSPs (graph colouring and random 0/infinity tables, optional unary hard "
        "constraints, n in 2..7, satisfiable and unsatisfiable) x dba with infinity in "
        "{10000, 100} and max_distance in [diameter, diameter+3] x tape-drawn start order, "
        "FIFO delivery and random choices; non-trivial = some computation finished (the "
        "oracle was evaluated on a full assignment), >=2 parties, >=1 choice point; "
        "distinct = SHA-256 of decision-and-event log")


def diameter(names, edges):
    adj = {n: set() for n in names}
    for a, b in edges:
        adj[a].add(b)
        adj[b].add(a)
    best = 0
    for s in names:
        dist = {s: 0}
        todo = [s]
        while todo:
            x = todo.pop(0)
            for y in adj[x]:
                if y not in dist:
                    dist[y] = dist[x] + 1
                    todo.append(y)
        best = max(best, max(dist.values()))
    return best


def generate(rng, tier):
    n = rng.randint(2, 7 if tier == "thorough" else 6)
    names = [f"v{i}" for i in range(n)]
    shape = rng.choice(["connected", "connected", "tree", "chain", "star", "clique"])
    edges = gen.edges_for_shape(rng, names, shape, rng.choice([0.3, 0.6]))
    infinity = rng.choice([10000, 10000, 100])
    kind = rng.choice(["coloring", "random"])
    k = rng.randint(2, 3)
    domains, variables = {}, []
    for name in names:
        size = k if kind == "coloring" else rng.randint(1, 3)
        domains["d_" + name] = list(range(size))
        variables.append({"name": name, "domain": "d_" + name, "initial": None, "cost": None})
    size = {v["name"]: len(domains[v["domain"]]) for v in variables}
    constraints = []
    p_inf = rng.choice([0.2, 0.4, 0.6])
    for i, (a, b) in enumerate(edges):
        if kind == "coloring":
            table = [infinity if x == y else 0 for x in range(size[a]) for y in range(size[b])]
        else:
            table = [infinity if rng.random() < p_inf else 0 for _ in range(size[a] * size[b])]
        constraints.append({"name": f"c{i}", "scope": [a, b], "table": table,
                            "render": rng.choice(["matrix", "matrix", "matrix", "expr"])})
    for name in names:
        if rng.random() < 0.15:
            table = [infinity if rng.random() < 0.4 else 0 for _ in range(size[name])]
            constraints.append({"name": f"u_{name}", "scope": [name], "table": table,
                                "render": "matrix"})
    d = diameter(names, edges)
    return {"objective": "min", "domains": domains, "variables": variables,
            "constraints": constraints, "shape": shape, "cost_class": kind, "algo": "dba",
            "params": {"infinity": infinity, "max_distance": d + rng.randint(0, 3)},
            "no_var_drop": True, "graph_diameter": d}


class FinishWatch(Observer):
    def __init__(self, truth, infinity):
        self.truth = truth
        self.infinity = infinity
        self.bad = None
        self.checked = 0

    def on_finished(self, sim, name):
        if self.bad:
            return
        asg = common.assignment(sim)
        self.checked += 1
        missing = [n for n in self.truth.names if asg.get(n) not in self.truth.dom[n]]
        if missing:
            self.bad = (f"{name} finished at event {sim.events} while {missing} hold no "
                        f"domain value: {asg}")
            return
        viol = self.truth.violated(asg, self.infinity)
        if viol:
            self.bad = (f"{name} finished at event {sim.events} (cycle "
                        f"{sim.comps[name].cycle_count}) on {asg}, which violates {viol}")


def execute(case, tape):
    out = common.outcome()
    truth = Truth(case)
    infinity = case["params"]["infinity"]
    watch = FinishWatch(truth, infinity)
    sim = common.engine_a(case, tape, observers=[watch], max_events=2500)
    # the constraint graph must stay connected with max_distance >= diameter (quantifier)
    edges = [c["scope"] for c in case["constraints"] if len(c["scope"]) == 2]
    d = diameter(truth.names, edges)
    reachable = len(truth.names) < 2 or all(
        any(n in e for e in edges) for n in truth.names)
    feats = dict(algo="dba", mode=sim.config["mode"], kind=case["cost_class"])
    out["subspace"] = f"{case['cost_class']}/inf={infinity}"
    in_quantifier = reachable and _connected(truth.names, edges) and \
        case["params"]["max_distance"] >= d
    status = sim.run(stop=lambda s: watch.bad is not None)
    common.finish_stats(out, sim, tape)
    if not in_quantifier:
        out["stats"]["outside_quantifier"] += 1
        return out
    if status == "error":
        out["sut_error"] = sim.error[1]
        out["stats"]["inconclusive_sut_error"] += 1
        return out
    if watch.bad:
        out["violations"].append(common.violation("finished_implies_satisfied", watch.bad, **feats))
    out["stats"]["finish_checks"] += watch.checked
    if watch.checked:
        out["stats"]["runs_terminated"] += 1
    out["nontrivial"] = watch.checked > 0 and common.basic_nontrivial(sim, tape)
    return out


def _connected(names, edges):
    if not names:
        return True
    adj = {n: set() for n in names}
    for a, b in edges:
        adj[a].add(b)
        adj[b].add(a)
    seen = {names[0]}
    todo = [names[0]]
    while todo:
        x = todo.pop()
        for y in adj[x]:
            if y not in seen:
                seen.add(y)
                todo.append(y)
    return len(seen) == len(names)


BUDGET = {"quick": (24000, 70), "thorough": (600000, 900)}
REAL = ["pydcop.algorithms.dba", "pydcop.dcop.relations",
        "pydcop.computations_graph.constraints_hypergraph", "pydcop.infrastructure.computations"]
STUB = ["Agent", "Messaging", "transport", "discovery (replaced by compsim FIFO channel model)"]
ASSUMPTIONS = ["channels reliable and FIFO per (sender, destination)",
               "constraint graph connected and max_distance >= its diameter (cases leaving this "
               "set during shrinking are counted outside_quantifier and never reported)",
               "a constraint is violated iff its table value equals the configured infinity"]
LEVEL = "exploration"
LEVEL_TEXT = ("Seeded search over CSPs, max_distance, start orders, FIFO deliveries and DBA's "
              "random choices; invariant evaluated at every finished() of any computation on "
              "the assignment held by all computations at that event.")
LEVEL_NOTE = "Trusted: compsim FIFO channel model, ground truth from the case tables, n<=7."
TECHNIQUE = "deterministic simulation: seeded schedule search + invariant at every finished()"
DESIGN_REF = "DESIGN.md §7 C09"
