"""Helpers shared by the Engine-A property modules."""
import collections

from .. import build, seams
from ..compsim import CompSim, draw_config
from ..truth import Truth


def outcome(**kw):
    o = {"violations": [], "nontrivial": False, "stats": collections.Counter(),
         "subspace": "", "sim_time": 0.0, "steps": 0, "sut_error": None}
    o.update(kw)
    return o


def violation(oracle, detail, **features):
    return {"oracle": oracle, "detail": detail, "features": features}


def engine_a(case, tape, algo=None, params=None, observers=(), config=None,
             max_events=100000, wire_p=0.0, policies=None, modes=None, **kw):
    """Build the computations of `case` for `algo` and a CompSim around them."""
    seams.reset_globals()
    seams.install_random(tape)
    algo = algo or case["algo"]
    params = case.get("params", {}) if params is None else params
    built = build.Built(case)
    comps, graph = built.computations(algo, params)
    if config is None:
        dk = {}
        if policies:
            dk["policies"] = policies
        if modes:
            dk["modes"] = modes
        config = draw_config(tape, wire_p=wire_p, **dk)
    sim = CompSim(tape, comps, mode=config["mode"], policy=config["policy"],
                  wire=config["wire"], observers=observers, max_events=max_events, **kw)
    sim.config = config
    sim.built = built
    sim.graph = graph
    return sim


def assignment(sim):
    """Current value of every variable computation."""
    return {n: c.current_value for n, c in sim.comps.items() if hasattr(c, "current_value")
            and hasattr(c, "variable")}


def finish_stats(out, sim, tape):
    out["stats"].update(sim.stats)
    out["steps"] = sim.events
    out["sim_time"] = sim.now
    out["stats"]["policy_" + sim.config["policy"]] += 1
    out["stats"]["mode_" + sim.config["mode"]] += 1
    if sim.config["wire"]:
        out["stats"]["wire_runs"] += 1
    return out


def basic_nontrivial(sim, tape):
    return len(sim.parties) >= 2 and sim.stats["delivered"] >= 1 and tape.choice_points >= 1
