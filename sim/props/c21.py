"""C21 — an agent runs its computations on a single thread, one call at a time."""
import collections

from .. import gen, build
from . import common, orch, c22

ID = "C21"
ENGINE = "B"
RULE = ("the shipped solve sequence (thread mode) on random DCOPs with dpop|mgm2|maxsum|adsa|dsa, "
        "1..4 agents, metrics mode value_change|cycle_change|period (agent-level periodic "
        "actions), always with line-level pre-emption in pydcop/infrastructure and optional "
        "thread stalls; every start/on_message/pause/periodic/discovery callback is recorded "
        "with the thread that ran it and its enter/exit event numbers; non-trivial = >=2 agent "
        "threads, >=20 callbacks recorded, >=1 pre-emption fired; distinct = SHA-256 of "
        "decision-and-event log")


def generate(rng, tier):
    if rng.random() < 0.25:
        # resilient run with one removal event: pause / resume / repair callbacks
        from . import resilient
        case = resilient.gen_resilient(rng, tier, n_agents=(3, 5), per_agent=(1, 1),
                                       algos=("dsa", "mgm", "adsa"), tight=False, k_range=(1, 2))
        if case["algo"] == "adsa":
            case["params"] = {"period": 0.2}
        case["workload"] = "resilient"
        case["departing"] = [rng.choice([a["name"] for a in case["agents"]])]
        case["msg_delay"] = rng.choice([0.02, 0.05])
        case["collect_moment"] = "value_change"
        return case
    algo = rng.choice(["dpop", "mgm2", "maxsum", "adsa", "dsa"])
    case = gen.gen_dcop(
        rng, n_range=(2, 5), dom_range=(1, 3),
        shapes=("random", "tree", "chain", "star", "clique"),
        arity3_p=0.1, unary_p=0.1, varcost_p=0.2, cost_classes=("small", "signed"),
        initial_p=0.1, max_space=400)
    p = {}
    if algo in ("mgm2", "dsa"):
        p["stop_cycle"] = rng.randint(3, 8)
    if algo == "adsa":
        p["period"] = 0.2
    case["algo"] = algo
    case["params"] = p
    case["agents"] = orch.gen_agents(rng, rng.randint(1, 4))
    case["dist_method"] = "random"
    case["dist_seed"] = rng.randrange(1 << 30)
    case["collect_moment"] = rng.choice(["value_change", "cycle_change", "period"])
    case["period"] = 0.3 if case["collect_moment"] == "period" else None
    case["timeout"] = 3.0
    return case


class ThreadMonitor:
    """Records which thread runs each callback of each agent and detects overlap."""

    def __init__(self, sim):
        self.sim = sim
        self.active = collections.defaultdict(list)      # agent -> [(thread index, what)]
        self.count = 0
        self.kinds = collections.Counter()
        self.violations = {}
        self._undo = []
        self._cbmap = {}

    def _enter(self, agent, what, kind):
        sim = self.sim
        th = sim.current
        self.count += 1
        self.kinds[kind] += 1
        own = getattr(agent, "t", None)
        if own is not th:
            extra = dict(agent_kind="orchestrator" if agent.name == "orchestrator" else "agent",
                         callback=kind, thread=th.name.split("_")[0])
            self.violations.setdefault(("own_thread",) + tuple(sorted(extra.items())), (
                "own_thread", f"{what} of agent {agent.name} ran on thread '{th.name}' instead "
                f"of the agent's own thread '{getattr(own, 'name', None)}' "
                f"(event {sim.next_event_no()})", extra))
        for other_th, other_what in self.active[agent.name]:
            if other_th is not th:
                inv = th if th is not own else other_th       # the thread that is not the agent's
                extra = dict(callback=kind, agent_kind="orchestrator"
                             if agent.name == "orchestrator" else "agent",
                             intruder=inv.name.split("_")[0])
                self.violations.setdefault(("one_at_a_time",) + tuple(sorted(extra.items())), (
                    "one_at_a_time", f"{what} of agent {agent.name} entered on thread "
                    f"'{th.name}' while {other_what} is still running on thread "
                    f"'{other_th.name}'", extra))
                break
        self.active[agent.name].append((th, what))

    def _exit(self, agent):
        self.active[agent.name].pop()

    def wrap_callable(self, agent, f, what, kind):
        mon = self

        def wrapped(*a, **k):
            mon._enter(agent, what, kind)
            try:
                return f(*a, **k)
            finally:
                mon._exit(agent)
        return wrapped

    def install(self):
        import pydcop.infrastructure.agents as agents
        mon = self
        orig_add = agents.Agent.add_computation
        orig_periodic = agents.Agent.set_periodic_action

        def add_computation(agent, computation, comp_name=None, publish=True):
            orig_add(agent, computation, comp_name, publish)
            name = comp_name or computation.name
            for meth, kind in (("start", "start"), ("on_message", "on_message"),
                               ("pause", "pause")):
                setattr(computation, meth, mon.wrap_callable(
                    agent, getattr(computation, meth), f"{name}.{meth}()", kind))

        def set_periodic_action(agent, period, cb):
            return orig_periodic(agent, period, mon.wrap_callable(
                agent, cb, f"periodic action {getattr(cb, '__name__', cb)}", "periodic"))

        agents.Agent.add_computation = add_computation
        agents.Agent.set_periodic_action = set_periodic_action
        self._undo.append((agents.Agent, "add_computation", orig_add))
        self._undo.append((agents.Agent, "set_periodic_action", orig_periodic))
        # ResilientAgent overrides add_computation and calls super(): nothing more to wrap.
        import pydcop.infrastructure.discovery as discovery
        for meth in ("subscribe_agent", "subscribe_computation", "subscribe_replica"):
            self._wrap_subscribe(discovery.Discovery, meth)
        for meth in ("unsubscribe_agent", "unsubscribe_computation", "unsubscribe_replica"):
            self._wrap_unsubscribe(discovery.Discovery, meth)

    def _owner_agent(self, disc):
        # the Agent owning this Discovery instance
        for a in self.sim.capture.agents.values():
            if a.discovery is disc:
                return a
        return None

    def _wrap_subscribe(self, cls, meth):
        mon = self
        orig = getattr(cls, meth)

        def subscribe(disc, item, cb=None, *a, **k):
            if cb is not None:
                agent = mon._owner_agent(disc)
                if agent is not None:
                    key = (id(disc), cb)
                    if key not in mon._cbmap:
                        mon._cbmap[key] = mon.wrap_callable(
                            agent, cb, f"discovery callback {getattr(cb, '__name__', cb)}",
                            "discovery_cb")
                    cb = mon._cbmap[key]
            return orig(disc, item, cb, *a, **k)
        setattr(cls, meth, subscribe)
        self._undo.append((cls, meth, orig))

    def _wrap_unsubscribe(self, cls, meth):
        mon = self
        orig = getattr(cls, meth)

        def unsubscribe(disc, item, cb=None, *a, **k):
            if cb is not None:
                cb = mon._cbmap.get((id(disc), cb), cb)
            return orig(disc, item, cb, *a, **k)
        setattr(cls, meth, unsubscribe)
        self._undo.append((cls, meth, orig))

    def uninstall(self):
        for cls, name, f in reversed(self._undo):
            setattr(cls, name, f)
        self._undo = []


def execute(case, tape):
    out = common.outcome()
    cfg = orch.sim_config(tape)
    cfg["preempt_p"] = tape.pick([0.01, 0.03, 0.08])
    feats = dict(algo=case["algo"], collect=case["collect_moment"])
    out["subspace"] = f"{case.get('workload', 'solve')}/{case['algo']}/{case['collect_moment']}"
    built = build.Built(case)
    result = {}
    with orch.runtime(tape, cfg, max_time=case.get("timeout", 10.0) * 20) as sim:
        mon = ThreadMonitor(sim)
        mon.install()
        try:
            if case.get("workload") == "resilient":
                from pydcop.dcop.scenario import Scenario, DcopEvent, EventAction
                from . import resilient
                sim.step_cost = 0.0005
                sim.max_time = 200.0
                graph, mapping, foot = resilient.prepare(case, built)
                case = dict(case, distribution=mapping)
                orchestrator, _, _, _ = orch.build_orchestrated(
                    case, built, replication="dist_ucs_hostingcosts", delay=case["msg_delay"])
                orchestrator.deploy_computations()
                orchestrator.start_replication(case["k"])
                if orchestrator.wait_ready():
                    orchestrator.run(Scenario([
                        DcopEvent("d1", delay=0.3),
                        DcopEvent("e1", actions=[EventAction("remove_agent", agent=a)
                                                 for a in case["departing"]])]), timeout=40.0)
            else:
                graph = built.graph(case["algo"])
                mapping, _ = c22.compute_distribution(case, built, graph)
                case = dict(case, distribution=mapping)
                orchestrator, _, _, _ = orch.build_orchestrated(
                    case, built, collect_moment=case["collect_moment"], period=case["period"])
                orchestrator.deploy_computations()
                orchestrator.run(timeout=case["timeout"])
            result["status"] = orchestrator.status
        except orch.threadsim.SimAbort as e:
            result["abort"] = str(e)
        except Exception as e:
            result["driver_error"] = repr(e)
        finally:
            mon.uninstall()
    orch.stats_from(sim, out)
    out["stats"]["callbacks_recorded"] += mon.count
    for k, v in mon.kinds.items():
        out["stats"]["cb_" + k] += v
    if sim.fatal.errors or "driver_error" in result or "abort" in result:
        out["sut_error"] = str(sim.fatal.errors[:1] or result.get("driver_error") or result.get("abort"))
        out["stats"]["inconclusive_sut_error"] += 1
    for oracle, detail, extra in list(mon.violations.values())[:6]:
        out["violations"].append(common.violation(oracle, detail, **dict(feats, **extra)))
    out["nontrivial"] = (sim.stats["threads"] >= 3 and mon.count >= 20
                         and sim.stats["preemptions"] >= 1)
    return out


RUN_TIMEOUT_S = 120
BUDGET = {"quick": (1000, 75), "thorough": (30000, 1200)}
REAL = c22.REAL + ["pydcop.algorithms.{dpop,mgm2,maxsum,adsa,dsa}"]
STUB = c22.STUB
ASSUMPTIONS = ["thread mode only", "pre-emption at synchronisation points and traced line "
               "boundaries; overlap = a callback of an agent entered on one thread while "
               "another callback of the same agent is still active on a different thread",
               "the monitor wraps Agent.add_computation / set_periodic_action / "
               "Discovery.subscribe_* (harness-side, nothing in /repo changes)"]
LEVEL = "exploration"
LEVEL_TEXT = ("Seeded search over thread schedules (line-level pre-emption, stalls, virtual "
              "timers) of complete orchestrated runs; every computation callback is checked to "
              "run on the hosting agent's own thread and never to overlap another callback of "
              "that agent on a different thread.")
LEVEL_NOTE = "Trusted: threadsim scheduler; statement-level atomicity of CPython between traced lines."
TECHNIQUE = "deterministic simulation: pre-emptive baton scheduling + thread-identity/overlap monitor"
DESIGN_REF = "DESIGN.md §7 C21"
