"""C21 — an agent runs its computations on a single thread, one call at a time."""
import collections

from .. import gen, build
from . import common, orch, c22

ID = "C21"
ENGINE = "B"
RULE = ("the shipped solve sequence (thread mode) on random DCOPs with dpop|mgm2|maxsum|adsa|dsa, "
        "1..4 agents, metrics mode value_change|cycle_change|period (agent-level periodic "
        "actions); 25% resilient runs with one removal (pause/resume/repair callbacks); 25% "
        "'dynamic' runs: bare agents + directory hosting probe computations deployed at different "
        "moments that register discovery callbacks on each other, message each other (also before "
        "the destination exists), pause/resume and tick periodically; always with line-level pre-emption in pydcop/infrastructure and optional "
        "thread stalls; every start/on_message/pause/periodic/discovery callback is recorded "
        "with the thread that ran it and its enter/exit event numbers; non-trivial = >=2 agent "
        "threads, >=20 callbacks recorded, >=1 pre-emption fired; distinct = SHA-256 of "
        "decision-and-event log")


def gen_dynamic(rng, tier):
    """Bare agents + directory; probe computations deployed at different moments that register
    discovery callbacks on each other, message each other (also before the destination exists),
    pause/resume and run periodic actions."""
    agents = [f"a{i}" for i in range(rng.randint(2, 4))]
    comps = [f"p{i}" for i in range(rng.randint(2, 6))]
    host = {c: rng.choice(agents) for c in comps}
    pending = comps[:]
    rng.shuffle(pending)
    deployed, ops, serial = [], [], 0
    n_ops = rng.randint(6, 30 if tier == "thorough" else 22)
    while len(ops) < n_ops or pending:
        r = rng.random()
        if pending and (r < 0.3 or not deployed or len(ops) >= n_ops):
            c = pending.pop()
            others = [x for x in comps if x != c]
            watch = sorted(rng.sample(others, rng.randint(0, min(3, len(others)))))
            ops.append(["deploy", host[c], c, watch, rng.choice([None, None, 0.2, 0.5])])
            deployed.append(c)
        elif r < 0.75:
            serial += 1
            src = rng.choice(deployed)
            dst = rng.choice([x for x in comps if x != src])      # possibly not deployed yet
            ops.append(["send", src, dst, serial, rng.randint(0, 3)])
        elif r < 0.82:
            ops.append(["pause", rng.choice(deployed)])
        elif r < 0.9:
            ops.append(["resume", rng.choice(deployed)])
        else:
            c = rng.choice(deployed)
            ops.append([rng.choice(["watch", "watch", "unwatch"]), c,
                        rng.choice([x for x in comps if x != c])])
    return {"workload": "dynamic", "algo": "probe", "collect_moment": "none",
            "agent_names": agents, "comps": comps, "host": host, "ops": ops,
            "wait_p": rng.choice([0.0, 0.2, 0.6, 1.0])}


def generate(rng, tier):
    if rng.random() < 0.25:
        return gen_dynamic(rng, tier)
    if rng.random() < 0.33:
        # resilient run with one removal event: pause / resume / repair callbacks
        from . import resilient
        case = resilient.gen_resilient(rng, tier, n_agents=(3, 5), per_agent=(1, 1),
                                       algos=("dsa", "mgm", "adsa"), tight=False, k_range=(1, 2))
        if case["algo"] == "adsa":
            case["params"] = {"period": 0.2}
        case["workload"] = "resilient"
        case["departing"] = [rng.choice([a["name"] for a in case["agents"]])]
        case["msg_delay"] = rng.choice([0.02, 0.05])
        case["collect_moment"] = "value_change"
        return case
    algo = rng.choice(["dpop", "mgm2", "maxsum", "adsa", "dsa"])
    case = gen.gen_dcop(
        rng, n_range=(2, 5), dom_range=(1, 3),
        shapes=("random", "tree", "chain", "star", "clique"),
        arity3_p=0.1, unary_p=0.1, varcost_p=0.2, cost_classes=("small", "signed"),
        initial_p=0.1, max_space=400)
    p = {}
    if algo in ("mgm2", "dsa"):
        p["stop_cycle"] = rng.randint(3, 8)
    if algo == "adsa":
        p["period"] = 0.2
    case["algo"] = algo
    case["params"] = p
    case["agents"] = orch.gen_agents(rng, rng.randint(1, 4))
    case["dist_method"] = "random"
    case["dist_seed"] = rng.randrange(1 << 30)
    case["collect_moment"] = rng.choice(["value_change", "cycle_change", "period"])
    case["period"] = 0.3 if case["collect_moment"] == "period" else None
    case["timeout"] = 3.0
    return case


class ThreadMonitor:
    """Records which thread runs each callback of each agent and detects overlap."""

    def __init__(self, sim):
        self.sim = sim
        self.active = collections.defaultdict(list)      # agent -> [(thread index, what)]
        self.count = 0
        self.kinds = collections.Counter()
        self.violations = {}
        self._undo = []
        self._cbmap = {}
        self.ignore = set()      # agents started by the harness itself (bare directory agent)

    def _enter(self, agent, what, kind):
        sim = self.sim
        if agent.name in self.ignore:
            return
        th = sim.current
        self.count += 1
        self.kinds[kind] += 1
        own = getattr(agent, "t", None)
        if own is not th:
            extra = dict(agent_kind="orchestrator" if agent.name == "orchestrator" else "agent",
                         callback=kind, thread=th.name.split("_")[0])
            self.violations.setdefault(("own_thread",) + tuple(sorted(extra.items())), (
                "own_thread", f"{what} of agent {agent.name} ran on thread '{th.name}' instead "
                f"of the agent's own thread '{getattr(own, 'name', None)}' "
                f"(event {sim.next_event_no()})", extra))
        for other_th, other_what in self.active[agent.name]:
            if other_th is not th:
                inv = th if th is not own else other_th       # the thread that is not the agent's
                extra = dict(callback=kind, agent_kind="orchestrator"
                             if agent.name == "orchestrator" else "agent",
                             intruder=inv.name.split("_")[0])
                self.violations.setdefault(("one_at_a_time",) + tuple(sorted(extra.items())), (
                    "one_at_a_time", f"{what} of agent {agent.name} entered on thread "
                    f"'{th.name}' while {other_what} is still running on thread "
                    f"'{other_th.name}'", extra))
                break
        self.active[agent.name].append((th, what))

    def _exit(self, agent):
        if agent.name in self.ignore:
            return
        self.active[agent.name].pop()

    def wrap_callable(self, agent, f, what, kind):
        mon = self

        def wrapped(*a, **k):
            mon._enter(agent, what, kind)
            try:
                return f(*a, **k)
            finally:
                mon._exit(agent)
        return wrapped

    def wrap_action(self, agent, f, what):
        mon = self

        def wrapped(*a, **k):
            th = mon.sim.current
            if agent.name in mon.ignore or any(t is th for t, _ in mon.active[agent.name]):
                return f(*a, **k)                 # part of a callback already recorded
            mon._enter(agent, what, "action")
            try:
                return f(*a, **k)
            finally:
                mon._exit(agent)
        return wrapped

    def install(self):
        import pydcop.infrastructure.agents as agents
        mon = self
        orig_add = agents.Agent.add_computation
        orig_periodic = agents.Agent.set_periodic_action

        def add_computation(agent, computation, comp_name=None, publish=True):
            orig_add(agent, computation, comp_name, publish)
            name = comp_name or computation.name
            for meth, kind in (("start", "start"), ("on_message", "on_message"),
                               ("pause", "pause")):
                setattr(computation, meth, mon.wrap_callable(
                    agent, getattr(computation, meth), f"{name}.{meth}()", kind))
            if not name.startswith("_discovery") and hasattr(computation, "post_msg"):
                # an action of the computation witnessed by a message posted in its name: when
                # it is not nested in one of the callbacks above (same thread), it is an action
                # of its own (a periodic action, a timer) and must be on the agent's thread too.
                # (The discovery computation is excluded: Messaging legitimately drives it from
                # the posting thread when a destination is unknown.)
                setattr(computation, "post_msg", mon.wrap_action(
                    agent, computation.post_msg, f"{name}.post_msg()"))

        def set_periodic_action(agent, period, cb):
            return orig_periodic(agent, period, mon.wrap_callable(
                agent, cb, f"periodic action {getattr(cb, '__name__', cb)}", "periodic"))

        agents.Agent.add_computation = add_computation
        agents.Agent.set_periodic_action = set_periodic_action
        self._undo.append((agents.Agent, "add_computation", orig_add))
        self._undo.append((agents.Agent, "set_periodic_action", orig_periodic))
        # ResilientAgent overrides add_computation and calls super(): nothing more to wrap.
        import pydcop.infrastructure.discovery as discovery
        for meth in ("subscribe_agent", "subscribe_computation", "subscribe_replica"):
            self._wrap_subscribe(discovery.Discovery, meth)
        for meth in ("unsubscribe_agent", "unsubscribe_computation", "unsubscribe_replica"):
            self._wrap_unsubscribe(discovery.Discovery, meth)

    def _owner_agent(self, disc):
        # the Agent owning this Discovery instance
        for a in self.sim.capture.agents.values():
            if a.discovery is disc:
                return a
        return None

    def _wrap_subscribe(self, cls, meth):
        mon = self
        orig = getattr(cls, meth)

        def subscribe(disc, item, cb=None, *a, **k):
            if cb is not None:
                agent = mon._owner_agent(disc)
                if agent is not None:
                    key = (id(disc), cb)
                    if key not in mon._cbmap:
                        mon._cbmap[key] = mon.wrap_callable(
                            agent, cb, f"discovery callback {getattr(cb, '__name__', cb)}",
                            "discovery_cb")
                    cb = mon._cbmap[key]
            return orig(disc, item, cb, *a, **k)
        setattr(cls, meth, subscribe)
        self._undo.append((cls, meth, orig))

    def _wrap_unsubscribe(self, cls, meth):
        mon = self
        orig = getattr(cls, meth)

        def unsubscribe(disc, item, cb=None, *a, **k):
            if cb is not None:
                cb = mon._cbmap.get((id(disc), cb), cb)
            return orig(disc, item, cb, *a, **k)
        setattr(cls, meth, unsubscribe)
        self._undo.append((cls, meth, orig))

    def uninstall(self):
        for cls, name, f in reversed(self._undo):
            setattr(cls, name, f)
        self._undo = []


def run_dynamic(case, tape, sim, result):
    from . import bare
    b = bare.Bare(sim, case["agent_names"])
    MPC, Message = b.Control.__mro__[1], b.Message
    probes = {}

    class Probe(MPC):
        def __init__(self, name, discovery, watch, route, period):
            super().__init__(name)
            self.discovery, self.watch, self.route, self.period = discovery, watch, route, period
            self.seen, self.ticks = [], 0
            self._msg_handlers["x"] = self._on_x

        def on_start(self):
            for w in self.watch:
                self.discovery.subscribe_computation(w, self._on_disc)
            if self.period:
                self.add_periodic_action(self.period, self._tick)

        def _on_disc(self, evt, comp, agent):
            self.seen.append((evt, comp, agent))

        def _on_x(self, sender, msg, t):
            serial, ttl = msg.content
            if ttl > 0 and self.route:
                self.post_msg(self.route[(serial + ttl) % len(self.route)],
                              Message("x", (serial, ttl - 1)))

        def _tick(self):
            self.ticks += 1
            if self.route and self.ticks <= 6:
                self.post_msg(self.route[self.ticks % len(self.route)], Message("x", (0, 0)))

    def do(op):
        kind = op[0]
        if kind == "deploy":
            _, agt, c, watch, period = op
            a = b.agents[agt]
            pr = Probe(c, a.discovery, list(watch), [x for x in case["comps"] if x != c], period)
            probes[c] = pr
            b.on_agent(agt, lambda: (a.add_computation(pr), pr.start()))
        elif kind == "send":
            _, src, dst, serial, ttl = op
            pr = probes[src]
            b.on_agent(case["host"][src], lambda: pr.post_msg(dst, Message("x", (serial, ttl))))
        elif kind in ("pause", "resume"):
            pr = probes[op[1]]
            b.on_agent(case["host"][op[1]], lambda: pr.pause(kind == "pause"))
        elif kind == "watch":
            pr = probes[op[1]]
            b.on_agent(case["host"][op[1]],
                       lambda: pr.discovery.subscribe_computation(op[2], pr._on_disc))
        elif kind == "unwatch":
            pr = probes[op[1]]

            def unwatch():
                try:
                    pr.discovery.unsubscribe_computation(op[2], pr._on_disc)
                except Exception:
                    pass                      # not subscribed: nothing to undo
            b.on_agent(case["host"][op[1]], unwatch)
    for op in case["ops"]:
        do(op)
        if tape.coin(case["wait_p"]):
            b.drain(20.0)
    result["drained"] = b.drain(30.0)
    result["status"] = "dynamic"
    result["disc_events"] = sum(len(p.seen) for p in probes.values())
    b.shutdown()


def execute(case, tape):
    out = common.outcome()
    cfg = orch.sim_config(tape)
    cfg["preempt_p"] = tape.pick([0.01, 0.03, 0.08])
    feats = dict(algo=case["algo"], collect=case["collect_moment"])
    out["subspace"] = f"{case.get('workload', 'solve')}/{case['algo']}/{case['collect_moment']}"
    built = build.Built(case) if case.get("workload") != "dynamic" else None
    result = {}
    with orch.runtime(tape, cfg, max_time=case.get("timeout", 10.0) * 20) as sim:
        mon = ThreadMonitor(sim)
        mon.install()
        try:
            if case.get("workload") == "dynamic":
                # bare.Bare starts the directory computation from the driver, as the shipped
                # discovery tests do: that agent is the harness's, not under test here
                mon.ignore.add("agt_dir")
                run_dynamic(case, tape, sim, result)
            elif case.get("workload") == "resilient":
                from pydcop.dcop.scenario import Scenario, DcopEvent, EventAction
                from . import resilient
                sim.step_cost = 0.0005
                sim.max_time = 200.0
                graph, mapping, foot = resilient.prepare(case, built)
                case = dict(case, distribution=mapping)
                orchestrator, _, _, _ = orch.build_orchestrated(
                    case, built, replication="dist_ucs_hostingcosts", delay=case["msg_delay"])
                orchestrator.deploy_computations()
                orchestrator.start_replication(case["k"])
                if orchestrator.wait_ready():
                    orchestrator.run(Scenario([
                        DcopEvent("d1", delay=0.3),
                        DcopEvent("e1", actions=[EventAction("remove_agent", agent=a)
                                                 for a in case["departing"]])]), timeout=40.0)
            else:
                graph = built.graph(case["algo"])
                mapping, _ = c22.compute_distribution(case, built, graph)
                case = dict(case, distribution=mapping)
                orchestrator, _, _, _ = orch.build_orchestrated(
                    case, built, collect_moment=case["collect_moment"], period=case["period"])
                orchestrator.deploy_computations()
                orchestrator.run(timeout=case["timeout"])
            if "status" not in result:
                result["status"] = orchestrator.status
        except orch.threadsim.SimAbort as e:
            result["abort"] = str(e)
        except Exception as e:
            result["driver_error"] = repr(e)
        finally:
            mon.uninstall()
    orch.stats_from(sim, out)
    out["stats"]["callbacks_recorded"] += mon.count
    for k, v in mon.kinds.items():
        out["stats"]["cb_" + k] += v
    if sim.fatal.errors or "driver_error" in result or "abort" in result:
        out["sut_error"] = str(sim.fatal.errors[:1] or result.get("driver_error") or result.get("abort"))
        out["stats"]["inconclusive_sut_error"] += 1
    for oracle, detail, extra in list(mon.violations.values())[:6]:
        out["violations"].append(common.violation(oracle, detail, **dict(feats, **extra)))
    out["nontrivial"] = (sim.stats["threads"] >= 3 and mon.count >= 20
                         and sim.stats["preemptions"] >= 1)
    return out


RUN_TIMEOUT_S = 120
BUDGET = {"quick": (600, 80), "thorough": (10000, 1300)}
REAL = c22.REAL + ["pydcop.algorithms.{dpop,mgm2,maxsum,adsa,dsa}"]
STUB = c22.STUB
ASSUMPTIONS = ["thread mode only", "pre-emption at synchronisation points and traced line "
               "boundaries; overlap = a callback of an agent entered on one thread while "
               "another callback of the same agent is still active on a different thread",
               "the monitor wraps Agent.add_computation / set_periodic_action / "
               "Discovery.subscribe_* (harness-side, nothing in /repo changes)",
               "in the 'dynamic' workload the directory agent is started by the harness from the "
               "driver thread (as the shipped discovery tests do) and is excluded from the monitor; "
               "every operation on the other agents runs on their own thread through a control message"]
LEVEL = "exploration"
LEVEL_TEXT = ("Seeded search over thread schedules (line-level pre-emption, stalls, virtual "
              "timers) of complete orchestrated runs; every computation callback is checked to "
              "run on the hosting agent's own thread and never to overlap another callback of "
              "that agent on a different thread.")
LEVEL_NOTE = "Trusted: threadsim scheduler; statement-level atomicity of CPython between traced lines."
TECHNIQUE = "deterministic simulation: pre-emptive baton scheduling + thread-identity/overlap monitor"
DESIGN_REF = "DESIGN.md §7 C21"
