"""C18 — agent messaging delivers each message once, by priority, FIFO per sender."""
import collections

from .. import threadsim
from . import common, orch, bare

ID = "C18"
ENGINE = "B"
PRIOS = (5, 10, 15, 19, 20)
RULE = ("one receiving Agent with 1..4 recorder computations (up to two of them registered late, "
        "one after the other, on the agent thread), 2..4 poster threads calling the agent's Messaging.post_msg as "
        "InProcessCommunicationLayer.receive_msg does from foreign agent threads, plus posts "
        "made on the agent's own thread; priorities from {5,10,15,19,20}; clean_shutdown() at a "
        "tape-chosen instant then join(); opcode-level pre-emption inside Messaging.post_msg and "
        "line-level pre-emption elsewhere; history = post-call/post-return/push/pop/handle "
        "events stamped with the simulator's global event number; non-trivial = >=2 poster "
        "threads interleaved (some pre-emption fired) and >=6 messages handled; distinct = "
        "SHA-256 of decision-and-event log")


def generate(rng, tier):
    n_posters = rng.randint(2, 4)
    dests = ["R1"] + (["R2"] if rng.random() < 0.6 else []) + (["L"] if rng.random() < 0.6 else [])
    if "L" in dests and rng.random() < 0.5:
        dests.append("L2")          # a second destination that registers late, after the first
    posters = []
    serial = 0
    for p in range(n_posters):
        msgs = []
        for _ in range(rng.randint(2, 8 if tier == "thorough" else 6)):
            serial += 1
            msgs.append([rng.choice(dests), rng.choice(PRIOS if rng.random() < 0.6 else (20,)),
                         serial])
        posters.append(msgs)
    local = []
    for _ in range(rng.randint(0, 3)):
        serial += 1
        local.append([rng.choice(dests), rng.choice(PRIOS), serial])
    burst = []
    if rng.random() < 0.3:
        for _ in range(rng.randint(1, 3)):
            serial += 1
            burst.append([rng.choice([d for d in dests if d[0] != "L"]), rng.choice(PRIOS), serial])
    return {"posters": posters, "local": local, "dests": dests, "last_burst": burst,
            "periodic": rng.random() < 0.5,
            "late_after": rng.randint(0, 6), "late_after2": rng.randint(0, 12),
            "late_from": rng.choice(["agent", "agent", "driver"]), "shutdown_after": rng.choice([None, None, 3, 8, 15]),
            "opcode_p": rng.choice([0.0, 0.05, 0.2]), "line_p": rng.choice([0.0, 0.02, 0.1])}


def shrink_candidates(case):
    import copy
    for i, msgs in enumerate(case["posters"]):
        if len(case["posters"]) > 1:
            c = copy.deepcopy(case)
            del c["posters"][i]
            yield c
        for j in range(len(msgs)):
            c = copy.deepcopy(case)
            del c["posters"][i][j]
            yield c
    for j in range(len(case["local"])):
        c = copy.deepcopy(case)
        del c["local"][j]
        yield c
    if case["shutdown_after"] is not None:
        c = copy.deepcopy(case)
        c["shutdown_after"] = None
        yield c
    for j in range(len(case.get("last_burst", []))):
        c = copy.deepcopy(case)
        del c["last_burst"][j]
        yield c


def execute(case, tape):
    out = common.outcome()
    cfg = {"preempt_p": case["line_p"], "stall_p": tape.pick([0.0, 0.02])}
    feats = dict(opcode=case["opcode_p"] > 0, late="L" in case["dests"],
                 late_from=case.get("late_from", "agent") if "L" in case["dests"] else "none",
                 early_shutdown=case["shutdown_after"] is not None)
    H = []                      # the history
    result = {}
    from pydcop.infrastructure.communication import Messaging
    with orch.runtime(tape, cfg, max_time=300.0, max_steps=300000, opcode_p=case["opcode_p"],
                      opcode_funcs=(Messaging.post_msg,)) as sim:
        try:
            b = bare.Bare(sim, ["A"])
            A = b.agents["A"]
            q = A._messaging._queue
            ev = sim.next_event_no

            def on_push(_, item):
                full = item[-1]
                if getattr(full.msg, "type", None) == "x":
                    H.append(("push", full.msg.content, item[0], ev(), sim.current.name))

            def on_pop(_, item):
                full = item[-1]
                if getattr(full.msg, "type", None) == "x":
                    H.append(("pop", full.msg.content, item[0], ev(),
                              sorted(it[-1].msg.content for it in _.items
                                     if getattr(it[-1].msg, "type", None) == "x")))
            q.on_push, q.on_pop = on_push, on_pop
            log = []

            class Rec(b.Recorder):
                def _on_x(self, sender, msg, t):
                    H.append(("handle", msg.content, self.name, ev(), sim.current.name, sender))
            recs = {d: Rec(d, log, sim) for d in case["dests"]}
            if case.get("periodic"):
                # a slow periodic action (agents of many algorithms and the orchestrated
                # agents have one): the agent thread spends virtual time between two polls
                in_periodic = [False]

                def slow_action():
                    in_periodic[0] = True
                    sim.sleep(0.03)
                    in_periodic[0] = False
                b.on_agent("A", lambda: A.set_periodic_action(0.04, slow_action))

            def register(name):
                def fn():
                    H.append(("register", name, ev()))
                    A.add_computation(recs[name])
                    recs[name].start()
                    H.append(("registered", name, ev()))
                return fn

            def register_late(name):
                if case.get("late_from", "agent") == "agent":
                    b.on_agent("A", register(name))
                    return
                # Agent.add_computation called by another thread while the agent runs (the
                # public API allows it).  The recorder is marked running beforehand so that
                # nothing is buffered by the computation itself (that is C19's subject).
                H.append(("register", name, ev()))
                recs[name]._running = True
                A.add_computation(recs[name])
                H.append(("registered", name, ev()))
            for d in case["dests"]:
                if d[0] != "L":
                    b.on_agent("A", register(d))
            b.drain()
            posted = [0]

            def poster(pi, msgs):
                def run():
                    for dest, prio, serial in msgs:
                        H.append(("post_call", serial, f"poster{pi}", dest, prio, ev()))
                        A._messaging.post_msg(f"poster{pi}", dest, b.Message("x", serial), prio)
                        H.append(("post_ret", serial, ev()))
                        posted[0] += 1
                return run
            threads = [threadsim.SimThread(sim, target=poster(i, m), name=f"poster{i}")
                       for i, m in enumerate(case["posters"])]
            for t in threads:
                t.start()

            def local_posts():
                for dest, prio, serial in case["local"]:
                    H.append(("post_call", serial, "local", dest, prio, ev()))
                    A._messaging.post_msg("local", dest, b.Message("x", serial), prio)
                    H.append(("post_ret", serial, ev()))
                    posted[0] += 1
            if case["local"]:
                b.on_agent("A", local_posts, prio=tape.pick([10, 20]))
            if "L" in case["dests"]:
                sim.block(lambda: posted[0] >= case["late_after"] or
                          all(t.state == threadsim.DONE for t in threads), 100.0)
                register_late("L")
            if "L2" in case["dests"]:
                sim.block(lambda: posted[0] >= case.get("late_after2", 0) or
                          all(t.state == threadsim.DONE for t in threads), 100.0)
                register_late("L2")
            if case["shutdown_after"] is None:
                for t in threads:
                    t.join()
                b.drain()
            else:
                sim.block(lambda: posted[0] >= case["shutdown_after"] or
                          all(t.state == threadsim.DONE for t in threads), 100.0)
            if case.get("last_burst"):
                # the agent is slow (stalled, or busy in its periodic action) while a last burst
                # arrives, then shutdown is asked
                if case.get("periodic"):
                    sim.block(lambda: in_periodic[0], 1.0)
                sim._stall = [A.t, 4 + 3 * len(case["last_burst"])]
                sim.stats["stalls"] += 1
                for dest, prio, serial in case["last_burst"]:
                    H.append(("post_call", serial, "driver", dest, prio, ev()))
                    A._messaging.post_msg("driver", dest, b.Message("x", serial), prio)
                    H.append(("post_ret", serial, ev()))
            H.append(("shutdown_call", ev()))
            A.clean_shutdown()
            A.join()
            H.append(("agent_exit", ev()))
            for t in threads:
                t.join()
            result["poster_errors"] = [(t.name, repr(t.error)) for t in threads if t.error]
            b.dir_agent.clean_shutdown()
            b.dir_agent.join()
        except orch.threadsim.SimAbort as e:
            result["abort"] = str(e)
        except Exception as e:
            import traceback
            result["driver_error"] = repr(e) + "\n" + traceback.format_exc()[-1200:]
    orch.stats_from(sim, out)
    out["stats"]["fault_opcode_preemptions"] += sim.stats["opcode_preemptions"]
    if sim.fatal.errors or result.get("poster_errors") or "driver_error" in result:
        err = (sim.fatal.errors[:1] or result.get("poster_errors") or [result.get("driver_error")])[0]
        out["sut_error"] = str(err)
        out["violations"].append(common.violation(
            "no_exception", f"exception in agent or poster thread: {err}",
            exc=str(err[1] if isinstance(err, tuple) else err).split("(")[0], **feats))
        return out
    if "abort" in result:
        out["violations"].append(common.violation(
            "shutdown_completes", f"{result['abort']} at virtual t={sim.now:.2f}", **feats))
        return out
    viol = check_history(H, case)
    if viol:
        out["violations"].append(common.violation(viol[0], viol[1], **dict(feats, **viol[2])))
    handled = sum(1 for h in H if h[0] == "handle")
    out["stats"]["messages_handled"] += handled
    out["stats"]["late_registrations"] += sum(1 for d in case["dests"] if d[0] == "L")
    out["nontrivial"] = handled >= 6 and (sim.stats["opcode_preemptions"] +
                                          sim.stats["preemptions"] + sim.stats["handoffs"]) > 10
    return out


def check_history(H, case):
    post_call, post_ret, pushes, pops, handles = {}, {}, {}, {}, collections.defaultdict(list)
    info = {}
    registered = {}
    reg_done = {}
    shutdown = exit_ = None
    for h in H:
        k = h[0]
        if k == "post_call":
            post_call[h[1]] = h[5]
            info[h[1]] = (h[2], h[3], h[4])          # sender, dest, prio
        elif k == "post_ret":
            post_ret[h[1]] = h[2]
        elif k == "push":
            pushes.setdefault(h[1], []).append((h[3], h[2]))
        elif k == "pop":
            pops.setdefault(h[1], []).append((h[3], h[2]))
        elif k == "handle":
            handles[h[1]].append((h[3], h[2], h[4]))
        elif k == "register":
            registered[h[1]] = h[2]
        elif k == "registered":
            reg_done[h[1]] = h[2]
        elif k == "shutdown_call":
            shutdown = h[1]
        elif k == "agent_exit":
            exit_ = h[1]
    def races(serial, dest):
        """the post call overlaps the registration of its destination (the window in which the
        un-registered path and the registration callback can interleave)"""
        if dest not in registered:
            return False
        return post_call[serial] < reg_done.get(dest, 1 << 60) and \
            post_ret.get(serial, 1 << 60) > registered[dest]

    # exactly once
    for serial, (sender, dest, prio) in info.items():
        n = len(handles[serial])
        if n > 1:
            return ("at_most_once", f"message {serial} ({sender}->{dest}, type {prio}) was handled "
                    f"{n} times", {})
        must = serial in post_ret and post_ret[serial] < shutdown and dest in reg_done \
            and reg_done[dest] < shutdown
        if must and n == 0:
            late = post_call[serial] < reg_done[dest]
            return ("delivered", f"message {serial} ({sender}->{dest}, type {prio}) was posted "
                    f"(call returned at event {post_ret[serial]}, shutdown called at {shutdown}) "
                    f"but never handled", {"to_late_dest": late, "from": sender.rstrip("0123456789"),
                                           "races_with_registration": races(serial, dest)})
        if n == 1:
            when, comp, thread = handles[serial][0]
            if comp != dest:
                return ("right_destination", f"message {serial} for {dest} handled by {comp}", {})
            if thread != "thread_A":
                return ("handled_on_agent_thread", f"message {serial} handled on {thread}", {})
            if when < registered.get(dest, 0):
                return ("handled_after_registration", f"message {serial} handled at {when}, "
                        f"before {dest} registered at {registered[dest]}", {})
    # pushed before shutdown => handled before exit
    for serial, ps in pushes.items():
        if ps[0][0] < shutdown and not handles[serial]:
            return ("shutdown_drains_queue", f"message {serial} entered the queue at event "
                    f"{ps[0][0]}, before clean_shutdown() (event {shutdown}), but was never handled",
                    {})
    # priority: never take a lower-priority message while a higher-priority one is queued
    seq = []
    for serial in pops:
        if serial not in info:
            continue
        typ = info[serial][2]          # the type declared by the poster, never the queue's key
        for (t_pop, _k), (t_push, _) in zip(sorted(pops[serial]), sorted(pushes.get(serial, []))):
            seq.append((t_push, t_pop, typ, serial))
    for (pu_i, po_i, ty_i, s_i) in seq:
        for (pu_j, po_j, ty_j, s_j) in seq:
            if ty_j < ty_i and pu_j < po_i < po_j:
                return ("by_priority", f"message {s_i} (type {ty_i}) was taken at event {po_i} "
                        f"while message {s_j} (type {ty_j}) was in the queue since event {pu_j}", {})
    # FIFO per sender and type (same destination registered or not)
    by_sender = collections.defaultdict(list)
    for serial, (sender, dest, prio) in info.items():
        if handles[serial]:
            by_sender[(sender, prio, dest)].append((post_call[serial], handles[serial][0][0], serial))
    for key, lst in by_sender.items():
        lst.sort()
        order = [h for _, h, _ in lst]
        if order != sorted(order):
            late = any(post_call[s] < reg_done.get(key[2], 0) for _, _, s in lst)
            racing = any(races(s, key[2]) for _, _, s in lst)
            return ("fifo_per_sender", f"messages of {key[0]} (type {key[1]}, to {key[2]}) posted "
                    f"in order {[s for _, _, s in lst]} were handled in order "
                    f"{[s for _, _, s in sorted(lst, key=lambda x: x[1])]}",
                    {"to_late_dest": late, "from": key[0].rstrip("0123456789"),
                     "races_with_registration": racing})
    return None


RUN_TIMEOUT_S = 120
BUDGET = {"quick": (10000, 75), "thorough": (220000, 1300)}
REAL = ["pydcop.infrastructure.communication.Messaging (post_msg/next_msg/"
        "_on_computation_registration/shutdown)", "Agent (_run, clean_shutdown, add_computation)",
        "Discovery", "Directory", "InProcessCommunicationLayer"]
STUB = ["threading/queue/time primitives (threadsim; the priority queue is heapq on a list like "
        "queue.PriorityQueue)", "recorder/control computations and poster threads are harness code"]
ASSUMPTIONS = ["opcode-level pre-emption is enabled inside Messaging.post_msg only; elsewhere "
               "pre-emption is at line boundaries of pydcop/infrastructure",
               "the oracle reads only (sender, serial, declared type, event stamps), never the "
               "queue's key",
               "order between different senders racing on the un-registered path is not specified "
               "and not checked; posts returning after clean_shutdown() may be dropped"]
LEVEL = "exploration"
LEVEL_TEXT = ("Seeded search over post/registration/shutdown histories and thread interleavings "
              "(down to single bytecodes inside post_msg) on the real Messaging/Agent; history "
              "oracle for exactly-once, priority, per-sender FIFO, late registration and clean "
              "shutdown, stamped with global event numbers.")
LEVEL_NOTE = "Trusted: threadsim scheduler and its heap-based queue; histories of a few dozen messages."
TECHNIQUE = "deterministic simulation: opcode-level pre-emptive scheduling + history oracle"
DESIGN_REF = "DESIGN.md §7 C18"
