"""C15 — everything sent between agents survives the wire and process spawn (partial)."""
import collections

from .. import gen, build, wire
from . import common, orch, resilient, c22

ID = "C15"
ENGINE = "B"
ALGOS = ("dpop", "syncbb", "mgm", "mgm2", "dsa", "adsa", "dsatuto", "dba", "gdba", "maxsum",
         "amaxsum")
RULE = ("the shipped process-mode deployment (run_local_process_dcop) with the real "
        "HttpCommunicationLayer.send_msg / MPCHttpHandler.do_POST code and requests' own JSON "
        "encoder but no sockets, agent definitions passed through pickle as the spawn start "
        "method does; workload = orchestrated solve of random DCOPs with each of the 11 "
        "algorithms (all four graph models in DeployMessage) and resilient deployments "
        "(replication, removal, repair); every object is compared after decoding with a deep, "
        "type-sensitive comparison; non-trivial = >=20 messages compared, of >=4 distinct "
        "message classes, across >=2 agents; 12% of the runs are 'catalogue' runs: a sequence of "
        "10..30 instances of the message classes built with `message_type` in the shipped "
        "modules (also those no run sends, e.g. NCBB's), with generated field values, encoded "
        "and decoded one after the other in one interpreter (state kept between decodes is part "
        "of the history); distinct = SHA-256 of event log")


CATALOGUE_MODULES = ("pydcop.infrastructure.orchestrator", "pydcop.infrastructure.orchestratedagents",
                     "pydcop.infrastructure.discovery", "pydcop.infrastructure.agents",
                     "pydcop.infrastructure.computations", "pydcop.replication.dist_ucs_hostingcosts",
                     "pydcop.reparation.removal") + tuple(
    "pydcop.algorithms." + a for a in ("adsa", "amaxsum", "dba", "dpop", "dsa", "dsatuto", "gdba",
                                       "maxsum", "mgm", "mgm2", "mixeddsa", "ncbb", "syncbb"))


def catalogue():
    """Every message class built with the `message_type` factory in the shipped modules:
    {(module, attribute): (class, wire type name, fields)} — also the ones no simulated run
    ever sends (NCBB's, which cannot run)."""
    import importlib
    from pydcop.infrastructure.computations import Message
    found, seen = {}, set()
    for mname in CATALOGUE_MODULES:
        try:
            mod = importlib.import_module(mname)
        except Exception:
            continue
        for attr, obj in sorted(vars(mod).items()):
            if not (isinstance(obj, type) and issubclass(obj, Message)):
                continue
            code = getattr(getattr(obj, "_simple_repr", None), "__code__", None)
            if code is None or "fields" not in code.co_freevars or id(obj) in seen:
                continue
            seen.add(id(obj))
            cells = dict(zip(code.co_freevars, obj._simple_repr.__closure__))
            fields = list(cells["fields"].cell_contents)
            found[(mname, attr)] = (obj, obj.__qualname__, fields)
    return found


def gen_value(rng, depth=0):
    r = rng.random()
    if r < 0.3:
        return rng.randrange(-5, 100)
    if r < 0.5:
        return rng.choice(["a", "v1", "a0", "", "x y"])
    if r < 0.6:
        return rng.choice([True, False, None])
    if r < 0.7:
        return rng.randrange(-40, 41) / 4.0
    if depth >= 2:
        return 0
    if r < 0.85:
        return [gen_value(rng, depth + 1) for _ in range(rng.randint(0, 3))]
    return {rng.choice(["a", "b", "v1", "c0"]): gen_value(rng, depth + 1)
            for _ in range(rng.randint(0, 3))}


def gen_catalogue(rng, tier):
    cat = catalogue()
    keys = sorted(cat)
    by_type = collections.defaultdict(list)
    for k in keys:
        by_type[cat[k][1]].append(k)
    shared = sorted(k for ks in by_type.values() if len(ks) > 1 for k in ks)
    seq = []
    for _ in range(rng.randint(10, 30)):
        k = rng.choice(shared) if shared and rng.random() < 0.4 else rng.choice(keys)
        seq.append([k[0], k[1], {f: gen_value(rng) for f in cat[k][2]}])
    return {"workload": "catalogue", "algo": "none", "sequence": seq, "agents": [],
            "objective": "min", "domains": {}, "variables": [], "constraints": []}


def generate(rng, tier):
    if rng.random() < 0.12:
        return gen_catalogue(rng, tier)
    if rng.random() < 0.28:
        case = resilient.gen_resilient(rng, tier, n_agents=(3, 4), per_agent=(1, 1),
                                       algos=("dsa", "mgm", "maxsum"), tight=False, k_range=(1, 2),
                                       max_maxsum_vars=3)
        case["workload"] = "resilient"
        agents = [a["name"] for a in case["agents"]]
        case["departing"] = [rng.choice(agents)]
        case["msg_delay"] = 0.05
        for a in case["agents"]:
            if rng.random() < 0.5:
                a.setdefault("extra", {})["zone"] = rng.choice(["north", "south"])
        return case
    algo = rng.choice(ALGOS)
    binary_only = algo == "syncbb"
    case = gen.gen_dcop(
        rng, n_range=(2, 5), dom_range=(1, 3),
        shapes=("random", "tree", "chain", "star", "clique"),
        arity3_p=0.0 if binary_only else 0.2, unary_p=0.0 if binary_only else 0.2,
        varcost_p=rng.choice([0.0, 0.5]),
        cost_classes=("small", "signed", "float", "inf"), initial_p=0.3, str_domain_p=0.3, max_space=400,
        objective="min" if algo == "dba" else None)
    p = {}
    if algo in ("mgm", "mgm2", "dsa"):
        p["stop_cycle"] = rng.randint(2, 6)
    if algo == "adsa":
        p["period"] = 0.2
    if algo == "dba":
        p["max_distance"] = 4
    if rng.random() < 0.15 and not binary_only:
        # a "wide" node: one variable with a dozen constraints (long tuples/lists on the wire)
        hub = rng.choice(case["variables"])["name"]
        others = [v["name"] for v in case["variables"] if v["name"] != hub]
        size = {v["name"]: len(case["domains"][v["domain"]]) for v in case["variables"]}
        for j in range(rng.randint(11, 13)):
            scope = [hub] if (not others or rng.random() < 0.5) else [hub, rng.choice(others)]
            k = 1
            for x in scope:
                k *= size[x]
            case["constraints"].append({"name": f"w{j}", "scope": scope,
                                        "table": [rng.randrange(0, 10) for _ in range(k)],
                                        "render": "matrix"})
        case["wide"] = True
    case["algo"] = algo
    case["params"] = p
    case["workload"] = "solve"
    case["agents"] = orch.gen_agents(rng, rng.randint(2, 4))
    for a in case["agents"]:
        if rng.random() < 0.5:
            a.setdefault("extra", {})["zone"] = rng.choice(["north", "south"])
            a["extra"]["preference"] = rng.randint(1, 5)
    case["dist_method"] = "random"
    case["dist_seed"] = rng.randrange(1 << 30)
    case["collect_moment"] = rng.choice(["value_change", "cycle_change", "period"])
    case["period"] = 0.5 if case["collect_moment"] == "period" else None
    case["timeout"] = 4.0
    return case


class WireAudit:
    def __init__(self, agent_names):
        self.agent_names = list(agent_names)
        self.problems = []          # (oracle, detail, features)
        self.compared = 0
        self.classes = collections.Counter()
        self.spawned = 0

    def __call__(self, kind, original, other, ctx):
        if kind == "message":
            self.compared += 1
            inner = getattr(original, "msg", original)
            cname = type(inner).__name__
            self.classes[cname] += 1
            d = wire.deep_eq(original, other)
            if d and len(self.problems) < 5:
                import re
                where = d.split(":", 1)[0]
                names = re.findall(r"\.([A-Za-z_][A-Za-z_0-9]*)", where)
                self.problems.append(("decoded_equals_sent", f"{cname} from {ctx[0]} to {ctx[1]}: "
                                      f"{d}\n  sent:    {inner!r}\n  decoded: "
                                      f"{getattr(other, 'msg', other)!r}",
                                      {"msg_class": cname, "field": names[-1] if names else ""}))
        elif kind in ("encode_error", "decode_error"):
            inner = getattr(original, "msg", original)
            cname = type(inner).__name__
            if len(self.problems) < 5:
                self.problems.append((
                    "encodable" if kind == "encode_error" else "decodable",
                    f"{cname} {inner!r}: {other!r}",
                    {"msg_class": cname, "exc": type(other).__name__}))
        elif kind == "pickle_error":
            self.problems.append(("agentdef_picklable", repr(other), {}))
        elif kind == "spawn":
            self.spawned += 1
            a, b = original[0], other[0]
            d = self.agentdef_diff(a, b)
            if d and len(self.problems) < 5:
                self.problems.append(("agentdef_survives_spawn", f"AgentDef {a.name}: {d}", {}))

    def agentdef_diff(self, a, b):
        def safe(f):
            try:
                return ("ok", f())
            except Exception as e:
                return ("raised", type(e).__name__)
        checks = [("name", lambda x: x.name),
                  ("extra_attr", lambda x: dict(x.extra_attr())),
                  ("default_hosting_cost", lambda x: x.default_hosting_cost),
                  ("hosting_costs", lambda x: dict(x.hosting_costs)),
                  ("default_route", lambda x: x.default_route),
                  ("routes", lambda x: dict(x.routes))]
        for other in self.agent_names + ["unknown_agent"]:
            checks.append((f"route({other})", lambda x, o=other: x.route(o)))
        for c in ("v0", "c0", "anything"):
            checks.append((f"hosting_cost({c})", lambda x, c=c: x.hosting_cost(c)))
        for label, f in checks:
            ra, rb = safe(lambda: f(a)), safe(lambda: f(b))
            if ra != rb:
                return f"{label}: {ra} before pickling, {rb} after"
        return None


def execute_catalogue(case, tape):
    """One 'process' decodes a sequence of messages of many classes, one after the other, with
    what pyDcop's HTTP layer uses: simple_repr -> JSON text -> from_repr."""
    import json
    from pydcop.utils.simple_repr import simple_repr, from_repr
    out = common.outcome()
    feats = dict(algo="none", workload="catalogue")
    out["subspace"] = "catalogue"
    cat = catalogue()
    audit = WireAudit([])
    for mname, attr, values in case["sequence"]:
        if (mname, attr) not in cat:
            out["stats"]["catalogue_class_missing"] += 1
            continue
        cls, _, fields = cat[(mname, attr)]
        msg = cls(**{f: values.get(f) for f in fields})
        try:
            text = json.dumps(simple_repr(msg), allow_nan=False)
        except Exception as e:
            audit("encode_error", msg, e, (mname, "catalogue"))
            continue
        try:
            back = from_repr(json.loads(text))
        except Exception as e:
            audit("decode_error", msg, e, (mname, "catalogue"))
            continue
        audit("message", msg, back, (mname, "catalogue"))
        if not audit.problems and (type(back).__qualname__ != type(msg).__qualname__ or
                                   back.type != msg.type):
            audit.problems.append(("decoded_equals_sent", f"{attr}: sent type {msg.type!r}, decoded "
                                   f"{back.type!r}", {"msg_class": attr, "field": "type"}))
    out["stats"]["messages_compared"] += audit.compared
    out["stats"]["catalogue_runs"] += 1
    out["steps"] = audit.compared
    if audit.problems:
        oracle, detail, extra = audit.problems[0]
        out["violations"].append(common.violation(oracle, detail, **dict(feats, **extra)))
    out["nontrivial"] = audit.compared >= 8 and len(audit.classes) >= 4
    return out


def execute(case, tape):
    if case.get("workload") == "catalogue":
        return execute_catalogue(case, tape)
    out = common.outcome()
    cfg = orch.sim_config(tape, preempt=False)
    feats = dict(algo=case["algo"], workload=case["workload"])
    out["subspace"] = f"{case['workload']}/{case['algo']}"
    built = build.Built(case)
    result = {}
    audit = WireAudit([a["name"] for a in case["agents"]])
    with orch.runtime(tape, cfg, max_time=400.0, max_steps=400000) as sim:
        wire.install(audit)
        try:
            from pydcop.distribution.objects import Distribution
            from pydcop.infrastructure.run import run_local_process_dcop
            if case["workload"] == "solve":
                graph = built.graph(case["algo"])
                mapping, _ = c22.compute_distribution(case, built, graph)
                algo = built.algo_def(case["algo"], case["params"])
                orchestrator = run_local_process_dcop(
                    algo, graph, Distribution(mapping), built.dcop, orch.INFINITY,
                    collect_moment=case["collect_moment"], period=case["period"])
                orchestrator.deploy_computations()
                orchestrator.run(timeout=case["timeout"])
            else:
                from pydcop.dcop.scenario import Scenario, DcopEvent, EventAction
                sim.step_cost = 0.0005
                graph, mapping, foot = resilient.prepare(case, built)
                algo = built.algo_def(case["algo"], case["params"])
                orchestrator = run_local_process_dcop(
                    algo, graph, Distribution(mapping), built.dcop, orch.INFINITY,
                    replication="dist_ucs_hostingcosts", delay=case["msg_delay"])
                orchestrator.deploy_computations()
                orchestrator.start_replication(case["k"])
                if orchestrator.wait_ready():
                    scenario = Scenario([
                        DcopEvent("d1", delay=0.3),
                        DcopEvent("e1", actions=[EventAction("remove_agent", agent=a)
                                                 for a in case["departing"]])])
                    orchestrator.run(scenario, timeout=30.0)
            result["status"] = orchestrator.status
        except orch.threadsim.SimAbort as e:
            result["abort"] = str(e)
        except Exception as e:
            import traceback
            result["driver_error"] = repr(e) + "\n" + traceback.format_exc()[-1200:]
        finally:
            wire.uninstall()
    orch.stats_from(sim, out)
    out["stats"]["messages_compared"] += audit.compared
    out["stats"]["agentdefs_spawned"] += audit.spawned
    for k, v in audit.classes.items():
        out["stats"]["class_" + k] += v
    if audit.problems:
        oracle, detail, extra = audit.problems[0]
        out["violations"].append(common.violation(oracle, detail, **dict(feats, **extra)))
    elif sim.fatal.errors or "driver_error" in result:
        err = sim.fatal.errors[0][1] if sim.fatal.errors else result["driver_error"]
        out["sut_error"] = err
        out["stats"]["inconclusive_sut_error"] += 1
    out["nontrivial"] = audit.compared >= 20 and len(audit.classes) >= 4
    return out


RUN_TIMEOUT_S = 180
BUDGET = {"quick": (2400, 80), "thorough": (36000, 1000)}
REAL = ["HttpCommunicationLayer.send_msg", "MPCHttpHandler.do_POST", "requests (Request.prepare: "
        "header stringification and JSON encoding with allow_nan=False)",
        "pydcop.utils.simple_repr", "custom reprs of messages/links/nodes", "AgentDef pickling",
        "run_local_process_dcop / _build_process_agent", "Orchestrator, OrchestratedAgent, "
        "Discovery, UCSReplication, all 11 algorithms"]
STUB = ["sockets and the HTTP server thread (POSTs are delivered by a direct call to do_POST)",
        "multiprocessing.Process (arguments are pickled and un-pickled, the target runs in the "
        "same interpreter)", "threading/queue/time primitives (threadsim)"]
ASSUMPTIONS = ["partial claim: only objects a simulated deployment actually transmits are compared",
               "set/frozenset -> list is accepted (documented behaviour of simple_repr); nothing "
               "else is relaxed: tuple vs list, int vs str dict keys, missing attributes and "
               "numeric type changes are differences",
               "all 'processes' share one interpreter (module globals are shared, unlike real "
               "process mode)"]
LEVEL = "exploration"
LEVEL_TEXT = ("Seeded search over DCOPs, algorithms and deployments run in wire mode; at every "
              "decode the object is deep-compared with the one that was sent (fields, links, "
              "neighbours, relation values over the whole domain product), encode/decode errors "
              "are violations, and every AgentDef is compared before/after pickling through "
              "its public accessors.")
LEVEL_NOTE = ("Partial (see assumptions). Trusted: threadsim, the socket-less transport shim "
              "(sim/wire.py), deep_eq.")
TECHNIQUE = "deterministic simulation in wire mode: real encode/decode path + deep comparison at every decode"
DESIGN_REF = "DESIGN.md §7 C15"
