"""Engine-B drivers: the shipped call sequences of `pydcop solve` / `pydcop run` on the
real Orchestrator / OrchestratedAgent / Messaging / Discovery code under threadsim."""
import collections
import contextlib
import io

from .. import build, seams, threadsim
from ..truth import Truth

INFINITY = 10000
TRACE_FILES = ("agents.py", "communication.py", "discovery.py", "orchestrator.py",
               "orchestratedagents.py", "computations.py")


def trace_prefixes():
    import os
    # import everything that is traced (and what it imports lazily) before any run, so that
    # import-time code never executes under the tracer
    import pydcop.infrastructure.run                      # noqa: F401
    import pydcop.replication.dist_ucs_hostingcosts       # noqa: F401
    import pydcop.replication.path_utils                  # noqa: F401
    import pydcop.reparation.removal                      # noqa: F401
    import pydcop.dcop.scenario                           # noqa: F401
    import pydcop.distribution.gh_cgdp                    # noqa: F401
    from pydcop.algorithms import load_algorithm_module
    for a in ("dpop", "mgm", "mgm2", "dsa", "adsa", "maxsum", "amaxsum", "syncbb", "dba", "gdba",
              "dsatuto"):
        load_algorithm_module(a)
    root = build.pydcop_root()
    return tuple(os.path.join(root, "pydcop", "infrastructure", f) for f in TRACE_FILES) + (
        os.path.join(root, "pydcop", "replication", "dist_ucs_hostingcosts.py"),)


def gen_agents(rng, n_agents, comps=(), capacity=(50, 200), hosting=True, routes=True):
    names = [f"a{i}" for i in range(n_agents)]
    agents = []
    # one default for all: routes stay symmetric.  A third of the agent sets use decimal
    # route costs (sums like 0.1 + 0.2 are not exact in binary floating point)
    decimal = rng.random() < 0.33
    default_route = rng.choice([0.1, 0.3, 0.7]) if decimal else rng.choice([1, 1, 2])
    for i, a in enumerate(names):
        d = {"name": a, "capacity": rng.randint(*capacity),
             "default_route": default_route,
             "default_hosting_cost": rng.choice([0, 0, 1, 5])}
        if hosting and comps:
            d["hosting_costs"] = {c: rng.randint(0, 9) for c in comps if rng.random() < 0.3}
        d["routes"] = {}
        agents.append(d)
    if routes:
        # symmetric route tables (the only ones the YAML format can express)
        for i, a in enumerate(names):
            for b in names[i + 1:]:
                if rng.random() < 0.4:
                    cost = rng.choice([0.1, 0.2, 0.3, 0.6, 0.7, 1.1]) if decimal else rng.randint(1, 9)
                    agents[i]["routes"][b] = cost
                    agents[names.index(b)]["routes"][a] = cost
    return agents


def random_mapping(rng, agent_names, comp_names, spread=True):
    mapping = {a: [] for a in agent_names}
    for c in comp_names:
        mapping[rng.choice(agent_names)].append(c)
    return mapping


class Fatal:
    """Collects exceptions that kill agent threads (Agent._run swallows them)."""

    def __init__(self):
        self.errors = []

    def install(self):
        import pydcop.infrastructure.agents as agents
        fatal = self

        def on_fatal_error(agent_self, e):
            import traceback
            fatal.errors.append((agent_self.name, repr(e), traceback.format_exc()[-1500:]))
        self._had = hasattr(agents.Agent, "on_fatal_error")
        agents.Agent.on_fatal_error = on_fatal_error

    def uninstall(self):
        import pydcop.infrastructure.agents as agents
        if not self._had and "on_fatal_error" in agents.Agent.__dict__:
            del agents.Agent.on_fatal_error


class AgentCapture:
    """Captures every Agent object constructed during a run (by wrapping Agent.__init__)."""

    def __init__(self):
        self.agents = collections.OrderedDict()

    def install(self):
        import pydcop.infrastructure.agents as agents
        cap = self
        self._orig = agents.Agent.__init__

        def init(agent_self, name, *a, **k):
            cap._orig(agent_self, name, *a, **k)
            cap.agents[name] = agent_self
        agents.Agent.__init__ = init

    def uninstall(self):
        import pydcop.infrastructure.agents as agents
        agents.Agent.__init__ = self._orig


def sim_config(tape, preempt=True):
    cfg = {"preempt_p": 0.0, "stall_p": 0.0}
    if preempt and tape.coin(0.5):
        cfg["preempt_p"] = tape.pick([0.005, 0.02, 0.05])
    if tape.coin(0.3):
        cfg["stall_p"] = 0.02
    return cfg


@contextlib.contextmanager
def runtime(tape, cfg, max_steps=400000, max_time=600.0, opcode_p=0.0, opcode_funcs=()):
    """Context: Sim installed on the pydcop runtime modules, torn down afterwards."""
    seams.reset_globals()
    seams.install_random(tape)
    sim = threadsim.Sim(tape, max_steps=max_steps, max_time=max_time,
                        preempt_p=cfg.get("preempt_p", 0.0), opcode_p=opcode_p,
                        trace_prefixes=trace_prefixes(), opcode_funcs=opcode_funcs)
    sim.stall_p = cfg.get("stall_p", 0.0)
    fatal = Fatal()
    cap = AgentCapture()
    threadsim.install(sim)
    fatal.install()
    cap.install()
    # AgentsMgt writes events.yaml / evtdist_N.yaml with open(): keep them in memory
    import pydcop.infrastructure.orchestrator as _orchestrator
    sim.files = {}

    class _MemFile(io.StringIO):
        def __init__(f, name, mode):
            super().__init__(sim.files.get(name, "") if "a" in mode else "")
            f.seek(0, 2)
            f._name = name

        def close(f):
            sim.files[f._name] = f.getvalue()
            super().close()
    if "open" not in _orchestrator.__dict__:
        _orchestrator.open = lambda name, mode="r", **kw: _MemFile(name, mode)
        sim._patched_open = True
    sim.fatal = fatal
    sim.capture = cap
    try:
        with contextlib.redirect_stdout(io.StringIO()):
            yield sim
    finally:
        try:
            sim.leaked = sim.finish()
        finally:
            if getattr(sim, "_patched_open", False) and "open" in _orchestrator.__dict__:
                del _orchestrator.open
            cap.uninstall()
            fatal.uninstall()
            threadsim.uninstall()


def build_orchestrated(case, built=None, replication=None, collect_moment="value_change",
                       period=None, delay=None):
    """run_local_thread_dcop(...) for the case: returns (orchestrator, built, graph, dist)."""
    from pydcop.distribution.objects import Distribution
    from pydcop.infrastructure.run import run_local_thread_dcop
    built = built or build.Built(case)
    graph = built.graph(case["algo"])
    algo = built.algo_def(case["algo"], case.get("params", {}))
    dist = Distribution({a: list(cs) for a, cs in case["distribution"].items()})
    orch = run_local_thread_dcop(algo, graph, dist, built.dcop, INFINITY,
                                 collect_moment=collect_moment, period=period,
                                 replication=replication, delay=delay)
    return orch, built, graph, dist


def stats_from(sim, out):
    out["stats"].update({k: v for k, v in sim.stats.items()})
    out["steps"] = sim.steps
    out["sim_time"] = sim.now
    out["stats"]["fault_preemptions"] += sim.stats["preemptions"]
    out["stats"]["fault_stalls"] += sim.stats["stalls"]
    if sim.baton_violations:
        out["stats"]["HARNESS_baton_violations"] += len(sim.baton_violations)
