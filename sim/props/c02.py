"""C02 — SyncBB finds the optimum of every binary-constraint DCOP."""
from .. import gen
from ..truth import Truth, same_cost
from . import common

ID = "C02"
ENGINE = "A"
RULE = ("random binary-constraint DCOP (n<=6, dom<=3, variables without constraints allowed, "
        "min/max, non-negative and signed cost sub-spaces) x tape-drawn start order and FIFO "
        "delivery; non-trivial = >=2 computations exchanged a message, >=1 choice point, "
        "termination+optimum oracle evaluated; distinct = SHA-256 of decision-and-event log")


def generate(rng, tier):
    big = tier == "thorough"
    case = gen.gen_dcop(
        rng, n_range=(1, 6 if big else 5), dom_range=(1, 3),
        shapes=("random", "random", "tree", "chain", "star", "clique", "components", "forest"),
        arity3_p=0.0, unary_p=0.0, varcost_p=0.0,
        cost_classes=("small", "small", "signed", "float"), initial_p=0.1, max_space=800)
    case["algo"] = "syncbb"
    case["params"] = {}
    return case


def cost_sign(case):
    neg = any(x < 0 for c in case["constraints"] for x in c["table"])
    return "signed" if neg else "nonneg"


def execute(case, tape):
    out = common.outcome()
    truth = Truth(case)
    n = len(truth.names)
    sim = common.engine_a(case, tape, max_events=200000)
    sign = cost_sign(case)
    sub = "n1" if n == 1 else sign
    out["subspace"] = f"{case['objective']}/{sub}"
    feats = dict(algo="syncbb", objective=case["objective"], costs=sub, mode=sim.config["mode"])
    status = sim.run()
    common.finish_stats(out, sim, tape)
    if status == "error":
        out["sut_error"] = sim.error[1]
        out["violations"].append(common.violation(
            "no_exception", f"{sim.error[0]}: {sim.error[1]}\n{sim.error[2][-1500:]}",
            exc=sim.error[1].split("(")[0], **feats))
        return out
    if status != "quiescent":
        out["violations"].append(common.violation("terminates", f"status={status}", **feats))
        return out
    first = sorted(truth.names)[0]
    unfinished = [x for x in sim.names if sim.finished[x] < 1]
    if sim.finished[first] < 1 or unfinished:
        out["violations"].append(common.violation(
            "terminates", f"quiescent but not finished: {unfinished} (first={first}); "
            f"messages to unknown destinations: {[(s, d) for s, d, _ in sim.unknown_dest]}",
            **feats))
        return out
    asg = common.assignment(sim)
    bad = [x for x in truth.names if asg.get(x) not in truth.dom[x]]
    if bad:
        out["violations"].append(common.violation(
            "complete_in_domain", f"values not in domain: { {x: asg.get(x) for x in bad} }",
            **feats))
        return out
    best, count, arg = truth.optimum()
    got = truth.cost(asg)
    out["stats"]["oracle_evaluated"] += 1
    if not same_cost(got, best):
        out["violations"].append(common.violation(
            "optimal", f"assignment {asg} costs {got}, optimum is {best} (e.g. {arg})", **feats))
    out["nontrivial"] = common.basic_nontrivial(sim, tape)
    return out


BUDGET = {"quick": (200000, 75), "thorough": (4000000, 1500)}
REAL = ["pydcop.algorithms.syncbb", "pydcop.computations_graph.ordered_graph",
        "pydcop.dcop.relations", "pydcop.infrastructure.computations"]
STUB = ["Agent", "Messaging", "transport", "discovery (replaced by compsim FIFO channel model)"]
ASSUMPTIONS = ["channels are reliable and FIFO per (sender, destination)",
               "ground-truth optimum by brute force"]
LEVEL = "exploration"
LEVEL_TEXT = ("Seeded search over binary DCOPs x start orders x FIFO deliveries of the real "
              "SyncBBComputation objects; oracle = termination of every computation plus "
              "brute-force optimum. Sub-space (objective, sign of costs, n=1) travels with "
              "each violation.")
LEVEL_NOTE = "Trusted: compsim FIFO channel model, brute-force ground truth, n<=6, domain<=3."
TECHNIQUE = "deterministic simulation: seeded schedule search + brute-force optimum oracle"
DESIGN_REF = "DESIGN.md §7 C02"
