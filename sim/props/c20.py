"""C20 — discovery views converge to the directory for subscribed items."""
import collections

from . import common, orch, bare

ID = "C20"
ENGINE = "B"
RULE = ("a directory agent and 2..3 plain Agents on InProcessCommunicationLayer; generated op "
        "history (<=12 ops) over register/unregister computation (on its host's thread; in a quarter "
        "of the histories one hand-over: a new host's publication racing with the former host's "
        "un-publication), "
        "register/unregister replica, register/unregister a foreign agent name, subscribe/"
        "unsubscribe to agents, computations and replicas with or without callbacks; each op runs "
        "on the owning agent's thread, the driver drains or not between ops (tape-chosen), line "
        "pre-emption optional; after a final drain every still-subscribed view is compared with "
        "the directory; non-trivial = at least one subscribed item whose directory state changed "
        "after the subscription was compared, >=3 threads; distinct = SHA-256 of event log")

COMPS = ("c1", "c2", "c3")
GHOSTS = ("z1", "z2")


def generate(rng, tier):
    agents = ["A1", "A2"] + (["A3"] if rng.random() < 0.5 else [])
    n = rng.randint(3, 12 if tier == "quick" else 16)
    # swarm: half of the histories concentrate on one computation (and one observer agent), are
    # longer, and favour replica events and callback subscriptions, so that deep conjunctions
    # (hosted + replicated elsewhere + followed with two callbacks + one removed) are reached
    focus = rng.choice(COMPS) if rng.random() < 0.5 else None
    watcher = rng.choice(agents)
    if focus:
        n = rng.randint(6, 16 if tier == "quick" else 20)
    kinds = ["computation", "computation", "replica", "agent"] if not focus or rng.random() < 0.4 \
        else ["computation", "replica", "replica", "replica", "agent"]

    def pick_comp(pool=COMPS):
        pool = list(pool)
        if focus in pool and rng.random() < 0.8:
            return focus
        return rng.choice(pool)
    host = {}                     # model: computation -> hosting agent
    replicas = collections.defaultdict(set)
    ghosts = {}
    style = {}
    active = {}                   # (agent, kind, item) -> set of active subscription tags
    ops = []
    for _ in range(n):
        r = rng.random()
        x = rng.choice(agents)
        if r < 0.22:
            c = pick_comp()
            if c not in host:
                host[c] = x
                ops.append(["reg_comp", x, c])
            else:
                h = host.pop(c)
                if rng.random() < 0.5:
                    for a in list(replicas[c]):
                        ops.append(["unreg_replica", a, c])
                    replicas[c].clear()
                # else: the replicas outlive the registration of their computation, as they do
                # between the departure of its host and the end of the repair
                ops.append(["unreg_comp", h, c])
        elif r < 0.36:
            cands = [c for c in host if host[c] != x] + \
                [c for c in COMPS if c not in host and x in replicas[c]]
            if not cands:
                continue
            c = pick_comp(cands)
            if x in replicas[c]:
                replicas[c].discard(x)
                ops.append(["unreg_replica", x, c])
            else:
                replicas[c].add(x)
                ops.append(["reg_replica", x, c, host[c]])
        elif r < 0.44:
            g = rng.choice(GHOSTS)
            if g in ghosts:
                ops.append(["unreg_agent", ghosts.pop(g), g])
            else:
                ghosts[g] = x
                ops.append(["reg_agent", x, g])
        else:
            if focus and rng.random() < 0.6:
                x = watcher
            kind = rng.choice(kinds)
            item = pick_comp() if kind != "agent" else rng.choice(
                [a for a in agents if a != x] + list(GHOSTS))
            st = style.setdefault((x, kind, item), rng.choice(
                ["plain", "cb"] if not focus else ["plain", "cb", "cb"]))
            sub = rng.random() < 0.7
            act = active.setdefault((x, kind, item), set())
            tag = st
            if st == "cb":
                # a second, independent callback for the same item: removing one of them must
                # leave the subscription (and what it taught the agent) alone
                if sub:
                    tag = "cb2" if ("cb" in act and rng.random() < 0.6) else "cb"
                elif act:
                    tag = rng.choice(sorted(act))
            after = (act | {tag}) if sub else (set() if tag == "plain" else act - {tag})
            # as every caller in pyDcop does, replicas are followed only together with the
            # computation itself
            if kind == "replica" and sub and not active.get((x, "computation", item)):
                st_c = style.setdefault((x, "computation", item), rng.choice(["plain", "cb"]))
                ops.append(["sub", x, "computation", item, st_c])
                active.setdefault((x, "computation", item), set()).add(st_c)
            if kind == "computation" and not after:
                for t in sorted(active.get((x, "replica", item), ())):
                    ops.append(["unsub", x, "replica", item, t])
                active[(x, "replica", item)] = set()
            active[(x, kind, item)] = after
            ops.append(["sub" if sub else "unsub", x, kind, item, tag])
    wait_p = rng.choice([0.0, 0.3, 0.7, 1.0])
    # drawn last, so that the histories without a hand-over are the ones generated before
    if rng.random() < 0.25:
        ops = with_handover(rng, agents, ops)
    return {"agents": agents, "ops": ops, "wait_p": wait_p}


def with_handover(rng, agents, ops):
    """Turn one un-registration into a hand-over, as after a repair: a new host publishes the
    computation while the former host's un-publication is still on its way (the two travel on
    different channels, so the directory may see them in either order; it must end up with the
    new host).  The former host is an agent that never follows the computation (a host that
    follows its own computation is the KF-C20-1 family), and the new host un-registers before
    the history registers the computation again."""
    cands = [i for i, op in enumerate(ops) if op[0] == "unreg_comp" and not any(
        o[0] == "sub" and o[1] == op[1] and o[3] == op[2] and o[2] != "agent" for o in ops)]
    if not cands:
        return ops
    i = rng.choice(cands)
    h, c = ops[i][1], ops[i][2]
    new = rng.choice(sorted(set(agents) - {h}))
    nxt = next((j for j in range(i + 1, len(ops)) if ops[j][0] == "reg_comp" and ops[j][2] == c),
               None)
    out = ops[:i] + [["reg_comp", new, c]] + ops[i:]
    if nxt is not None:
        at = rng.randint(i + 2, nxt + 1)
        out.insert(at, ["unreg_comp", new, c])
    elif rng.random() < 0.5:
        out.insert(rng.randint(i + 2, len(out)), ["unreg_comp", new, c])
    return out


def stale_unregistrations(ops):
    """Indices of the un-registrations issued by a former host after a hand-over, and of the
    registrations that start a hand-over."""
    host, leaving, idx, starts = {}, {}, set(), set()
    for i, op in enumerate(ops):
        if op[0] == "reg_comp":
            if op[2] in host:
                leaving[op[2]] = host[op[2]]
                starts.add(i)
            host[op[2]] = op[1]
        elif op[0] == "unreg_comp":
            if leaving.get(op[2]) == op[1]:
                del leaving[op[2]]
                idx.add(i)
            elif host.get(op[2]) == op[1]:
                del host[op[2]]
    return idx, starts


def shrink_candidates(case):
    import copy
    for i in range(len(case["ops"])):
        c = copy.deepcopy(case)
        del c["ops"][i]
        yield c
    for w in (0.0, 1.0):
        if case["wait_p"] != w:
            c = copy.deepcopy(case)
            c["wait_p"] = w
            yield c


def consistent(case):
    """Replays the op list on the reference model; rejects lists (produced by shrinking) that
    would use the API outside its contract (replica of an unregistered computation, ...)."""
    host, replicas, ghosts = {}, collections.defaultdict(set), {}
    subs = {}
    leaving = {}
    for op in case["ops"]:
        k = op[0]
        if k == "reg_comp":
            if op[2] in host:
                # hand-over: one at a time, to another agent, which never followed the item
                if op[2] in leaving or host[op[2]] == op[1] or any(
                        o[0] == "sub" and o[1] == host[op[2]] and o[3] == op[2] and o[2] != "agent"
                        for o in case["ops"]):
                    return False
                leaving[op[2]] = host[op[2]]
            host[op[2]] = op[1]
        elif k == "unreg_comp":
            if leaving.get(op[2]) == op[1]:
                del leaving[op[2]]
                continue
            if host.get(op[2]) != op[1] or op[2] in leaving:
                return False
            del host[op[2]]
        elif k == "reg_replica":
            if host.get(op[2]) != op[3] or op[1] == op[3] or op[1] in replicas[op[2]]:
                return False
            replicas[op[2]].add(op[1])
        elif k == "unreg_replica":
            if op[1] not in replicas[op[2]]:
                return False
            replicas[op[2]].discard(op[1])
        elif k == "reg_agent":
            if op[2] in ghosts:
                return False
            ghosts[op[2]] = op[1]
        elif k == "unreg_agent":
            if ghosts.get(op[2]) != op[1]:
                return False
            del ghosts[op[2]]
        elif k == "sub":
            if op[2] == "replica" and not subs.get((op[1], "computation", op[3])):
                return False
            cur = subs.setdefault((op[1], op[2], op[3]), set())
            if cur and (op[4] == "plain") != ("plain" in cur):
                return False                  # one style per (agent, item): plain or callbacks
            cur.add(op[4])
        elif k == "unsub":
            cur = subs.setdefault((op[1], op[2], op[3]), set())
            if cur and (op[4] == "plain") != ("plain" in cur):
                return False
            after = set() if op[4] == "plain" else cur - {op[4]}
            if op[2] == "computation" and not after and subs.get((op[1], "replica", op[3])):
                return False
            subs[(op[1], op[2], op[3])] = after
    return not leaving


def execute(case, tape):
    out = common.outcome()
    if not consistent(case):
        out["stats"]["skipped_inconsistent_history"] += 1
        return out
    cfg = orch.sim_config(tape)
    feats = dict(preempt=cfg["preempt_p"] > 0)
    result = {}
    cb_log = collections.defaultdict(list)       # (agent, kind, item) -> [event tuples]
    issued = []                                  # (op index, drained_before)
    with orch.runtime(tape, cfg, max_time=400.0, max_steps=200000) as sim:
        try:
            b = bare.Bare(sim, case["agents"])
            b.drain()
            cbs = {}

            def cb_for(x, kind, item, tag):
                key = (x, kind, item, tag)
                if key not in cbs:
                    def cb(evt, name, where, key=key):
                        cb_log[key].append((evt, name, where if isinstance(where, str) or where is None
                                            else "addr", sim.next_event_no()))
                    cbs[key] = cb
                return cbs[key]

            def run(op):
                k, x = op[0], op[1]
                a = b.agents[x]
                d = a.discovery
                if k == "reg_comp":
                    fn = lambda: d.register_computation(op[2], x, a.address)
                elif k == "unreg_comp":
                    fn = lambda: d.unregister_computation(op[2], x)
                elif k == "reg_replica":
                    owner = b.agents[op[3]]
                    fn = lambda: (d.register_computation(op[2], op[3], owner.address, publish=False),
                                  d.register_replica(op[2], x))
                elif k == "unreg_replica":
                    fn = lambda: d.unregister_replica(op[2], x)
                elif k == "reg_agent":
                    fn = lambda: d.register_agent(op[2], a.address)
                elif k == "unreg_agent":
                    fn = lambda: d.unregister_agent(op[2])
                else:
                    kind, item, st = op[2], op[3], op[4]
                    cb = cb_for(x, kind, item, st) if st != "plain" else None
                    meth = getattr(d, ("subscribe_" if k == "sub" else "unsubscribe_") + kind)
                    if k == "sub":
                        fn = lambda: meth(item, cb)
                    else:
                        def fn():
                            try:
                                meth(item, cb)
                            except ValueError:
                                pass        # documented: no such callback registered
                b.on_agent(x, fn)

            drained = True
            undrained_unreg = set()
            stale, handover_starts = stale_unregistrations(case["ops"])
            out["stats"]["handovers"] += len(stale)
            for i, op in enumerate(case["ops"]):
                # the API contract: a replica is registered for a computation the directory and
                # the replica host know; a computation has one host at a time, so a new host
                # registers only once the former host's un-registration has been processed
                # (in pyDcop: after the repair protocol) -> drain first; likewise an agent name
                # is published again (by anybody) only once its removal has been processed:
                # publications from two different agents are not ordered by the transport
                # (a hand-over is the exception: the former host's un-registration races with
                # the new host's registration, as it does when an agent leaves during a repair)
                # Everything issued before the hand-over is processed first, so that only the
                # two publications race.
                need = (op[0] in ("reg_replica", "unreg_comp", "unreg_agent") and i not in stale) or \
                    (op[0] in ("reg_comp", "reg_agent") and op[2] in undrained_unreg) or \
                    i in handover_starts
                if need and not drained:
                    b.drain()
                    drained = True
                if drained:
                    undrained_unreg.clear()
                if op[0] in ("unreg_comp", "unreg_agent") and i not in stale:
                    undrained_unreg.add(op[2])
                issued.append((i, drained))
                run(op)
                drained = False
                if tape.coin(case["wait_p"]):
                    b.drain()
                    drained = True
                    undrained_unreg.clear()
            result["drained"] = b.drain()
            # ---- read the views on the driver thread (everything is parked) ----------
            directory = b.directory
            ddisc = b.dir_agent.discovery
            views = {}
            for x, a in b.agents.items():
                views[x] = a.discovery
            result["compare"] = compare(case, views, directory, ddisc)
            b.shutdown()
        except orch.threadsim.SimAbort as e:
            result["abort"] = str(e)
        except Exception as e:
            import traceback
            result["driver_error"] = repr(e) + "\n" + traceback.format_exc()[-1500:]
    orch.stats_from(sim, out)
    if sim.fatal.errors:
        a, e, tb = sim.fatal.errors[0]
        out["sut_error"] = e
        out["violations"].append(common.violation(
            "no_exception", f"agent thread {a} died: {e}\n{tb}",
            exc=e.split("(")[0], where="directory" if a == "agt_dir" else "agent", **feats))
        return out
    if "driver_error" in result or "abort" in result:
        msg = result.get("driver_error") or result.get("abort")
        out["sut_error"] = msg
        out["violations"].append(common.violation(
            "no_exception" if "driver_error" in result else "drains",
            f"{msg} at virtual t={sim.now:.2f}", **feats))
        return out
    problems, compared, changed_after, _final = result["compare"]
    # callbacks: when the item changed after a drained subscription, the last event must
    # describe the final state
    cb_problem = check_callbacks(case, issued, cb_log, result["compare"])
    def stale_possible(x, kind, item):
        """x may hold knowledge about item acquired while it was not subscribed: a local
        (publish=False) registration made when hosting a replica, or an earlier subscription
        that it cancelled before subscribing again."""
        if any(op[0] == "reg_replica" and op[1] == x and op[2] == item for op in case["ops"]):
            return True
        return len(sub_periods(case, x, kind, item)) > 1

    def outlived(item):
        """some replica of `item` was still published when `item` itself was un-registered (as
        between the departure of its host and the end of a repair)"""
        reps = set()
        for op in case["ops"]:
            if op[0] == "reg_replica" and op[2] == item:
                reps.add(op[1])
            elif op[0] == "unreg_replica" and op[2] == item:
                reps.discard(op[1])
            elif op[0] == "unreg_comp" and op[2] == item and reps:
                return True
        return False

    def self_hosted(x, item):
        """x itself un-registered the computation AFTER the subscription that is still active
        (its own un-registration is what cancels the subscription, see KF-C20-1)."""
        per = sub_periods(case, x, "computation", item)
        if not per:
            return False
        start = per[-1][0]
        return any(op[0] == "unreg_comp" and op[1] == x and op[2] == item
                   for op in case["ops"][start + 1:])
    # every distinct class of disagreement of the run is reported (a known class must not hide
    # an unknown one found in the same history)
    seen = set()
    for kind, detail, x, item in problems:
        f = dict(kind=kind, subscriber_hosted_it=kind != "agent" and self_hosted(x, item),
                 stale_local_registration=stale_possible(x, kind, item))
        if kind == "replica":
            f["replicas_outlived_registration"] = outlived(item)
            # is it the view or the directory that departs from the history's own model?
            model = set()
            for op in case["ops"]:
                if op[0] == "reg_replica" and op[2] == item:
                    model.add(op[1])
                elif op[0] == "unreg_replica" and op[2] == item:
                    model.discard(op[1])
            f["directory_is_right"] = sorted(model) == _final.get((x, kind, item))
        if tuple(sorted(f.items())) in seen:
            continue
        seen.add(tuple(sorted(f.items())))
        out["violations"].append(common.violation("view_matches_directory", detail,
                                                  **dict(f, **feats)))
    for cbp in cb_problem:
        if any(p[0] == cbp[0] and p[2] == cbp[2] and p[3] == cbp[3] for p in problems):
            continue                    # consequence of the view disagreement reported above
        f = dict(kind=cbp[0], subscriber_hosted_it=cbp[0] != "agent" and self_hosted(cbp[2], cbp[3]),
                 stale_local_registration=stale_possible(cbp[2], cbp[0], cbp[3]))
        if ("cb",) + tuple(sorted(f.items())) in seen:
            continue
        seen.add(("cb",) + tuple(sorted(f.items())))
        out["violations"].append(common.violation("last_callback_matches_state", cbp[1],
                                                  **dict(f, **feats)))
    out["stats"]["views_compared"] += compared
    out["stats"]["callbacks_fired"] += sum(len(v) for v in cb_log.values())
    out["nontrivial"] = compared > 0 and changed_after > 0 and sim.stats["threads"] >= 3
    return out


def sub_periods(case, x, kind, item):
    """Subscription periods of (x, kind, item): list of [start index, end index or None, tags]
    where tags maps each callback tag still active at the end of the period to the index of its
    last sub op.  A period ends when the last tag is removed (or with an un-subscription
    without callback)."""
    periods, cur = [], None
    for i, op in enumerate(case["ops"]):
        if op[0] not in ("sub", "unsub") or (op[1], op[2], op[3]) != (x, kind, item):
            continue
        if op[0] == "sub":
            if cur is None:
                cur = [i, None, {}]
                periods.append(cur)
            cur[2][op[4]] = i
        elif cur is not None:
            if op[4] == "plain":
                cur[2].clear()
            else:
                cur[2].pop(op[4], None)
            if not cur[2]:
                cur[1] = i
                cur = None
    return periods


def last_sub_state(case):
    """(agent, kind, item) -> (subscribed?, active tags -> index of their sub op,
    index of the last sub/unsub op, start of the current period)"""
    st = {}
    keys = {(op[1], op[2], op[3]) for op in case["ops"] if op[0] in ("sub", "unsub")}
    for key in keys:
        per = sub_periods(case, *key)
        last = max(i for i, op in enumerate(case["ops"])
                   if op[0] in ("sub", "unsub") and (op[1], op[2], op[3]) == key)
        if per and per[-1][1] is None:
            st[key] = (True, dict(per[-1][2]), last, per[-1][0])
        else:
            st[key] = (False, {}, last, None)
    return st


def compare(case, views, directory, ddisc):
    from pydcop.infrastructure.discovery import UnknownAgent, UnknownComputation
    problems, compared, changed_after = [], 0, 0
    subs = last_sub_state(case)
    final = {}
    for (x, kind, item), (on, tags, idx, _start) in sorted(subs.items()):
        if not on:
            continue
        d = views[x]
        later_change = any(
            (op[0] in ("reg_comp", "unreg_comp") and kind == "computation" and op[2] == item) or
            (op[0] in ("reg_replica", "unreg_replica") and kind == "replica" and op[2] == item) or
            (op[0] in ("reg_agent", "unreg_agent") and kind == "agent" and op[2] == item)
            for op in case["ops"][idx + 1:])
        if kind == "computation":
            try:
                want = directory.computation_agent(item)
            except UnknownComputation:
                want = None
            try:
                got = d.computation_agent(item)
            except UnknownComputation:
                got = None
        elif kind == "agent":
            try:
                want = "known" if directory.agent_address(item) is not None else None
            except UnknownAgent:
                want = None
            try:
                got = "known" if d.agent_address(item) is not None else None
            except UnknownAgent:
                got = None
        else:
            # a replica set is only visible once the computation itself is known to the agent:
            # compared only when the agent is also subscribed to the computation
            if not subs.get((x, "computation", item), (False,))[0]:
                continue
            try:
                want = sorted(ddisc.replica_agents(item))
            except UnknownComputation:
                want = None
            try:
                got = sorted(d.replica_agents(item))
            except UnknownComputation:
                got = None
            if want is None or got is None:
                # computation unknown on one side is reported by the computation comparison
                continue
        compared += 1
        changed_after += 1 if later_change else 0
        final[(x, kind, item)] = want
        if got != want:
            problems.append((kind, f"{x} is subscribed to {kind} {item}: its view says {got!r}, "
                             f"the directory says {want!r} (ops: {case['ops']})", x, item))
    return problems, compared, changed_after, final


def check_callbacks(case, issued, cb_log, cmp):
    final = cmp[3]
    subs = last_sub_state(case)
    drained_before = dict(issued)
    found = []
    for key, tag, idx in sorted((key, tag, i) for key, (on, tags, _l, _s) in subs.items() if on
                                for tag, i in tags.items()):
        if tag == "plain" or key not in final:
            continue
        x, kind, item = key
        # a change op issued after a drain that followed the subscription
        seen_drain = False
        changed = False
        for i in range(idx + 1, len(case["ops"])):
            if drained_before.get(i):
                seen_drain = True
            op = case["ops"][i]
            if seen_drain and (
                    (kind == "computation" and op[0] in ("reg_comp", "unreg_comp") and op[2] == item) or
                    (kind == "agent" and op[0] in ("reg_agent", "unreg_agent") and op[2] == item)):
                changed = True
        if not changed or kind == "replica":
            continue
        events = cb_log.get(key + (tag,), [])
        want = final[key]
        if not events:
            found.append((kind, f"{x} subscribed to {kind} {item} with a callback, the item changed "
                          f"afterwards (final state {want!r}) but the callback never fired", x, item))
            continue
        last = events[-1]
        ok = (last[0].endswith("_added") and want is not None and
              (kind == "agent" or last[2] == want)) or \
             (last[0].endswith("_removed") and want is None)
        if not ok:
            found.append((kind, f"{x}'s callback for {kind} {item} last fired {last[:3]} but the "
                          f"final directory state is {want!r} (all events "
                          f"{[(e[0], e[2]) for e in events]})", x, item))
    return found


RUN_TIMEOUT_S = 120
BUDGET = {"quick": (20000, 80), "thorough": (300000, 1200)}
REAL = ["pydcop.infrastructure.discovery (Discovery, Directory, DirectoryComputation, "
        "DiscoveryComputation)", "Agent", "Messaging", "InProcessCommunicationLayer"]
STUB = ["threading/queue/time primitives (threadsim)", "control computation (harness) to run ops "
        "on the owning agent's thread"]
ASSUMPTIONS = ["channels stay FIFO (every shipped transport is); 'any order' is the interleaving "
               "across channels and with the ops",
               "the op histories respect the API contract the 37 passing discovery tests pin down: "
               "a computation has one host at a time (but for hand-overs, where the new host's "
               "publication races with the former host's un-publication), replicas are registered for computations the "
               "directory and the replica host already know, un-registrations come from the "
               "registering agent",
               "a replica set is compared only for computations the agent is also subscribed to",
               "per (agent, item) subscriptions consistently use either no callback or one callback"]
LEVEL = "exploration"
LEVEL_TEXT = ("Seeded search over discovery op histories and thread schedules on the real "
              "Discovery/Directory; after a drain every still-subscribed view (agent address, "
              "computation host, replica set) is compared with the directory and the last "
              "callback event with the final state.")
LEVEL_NOTE = "Trusted: threadsim scheduler; histories <= 12 ops (+ hand-over) over 2-3 agents, 3 computations."
TECHNIQUE = "deterministic simulation: op-history generation + view-vs-directory comparison after drain"
DESIGN_REF = "DESIGN.md §7 C20"
