"""Bare-agent driver (Engine B): a directory agent plus plain Agents on
InProcessCommunicationLayer — the fixture the shipped discovery tests use — under threadsim.
Operations pyDcop performs on the agent thread are executed there by a small control
computation hosted on the agent (the mechanism OrchestrationComputation uses)."""
from .. import threadsim


def make_classes():
    from pydcop.infrastructure.computations import MessagePassingComputation, Message

    class Control(MessagePassingComputation):
        """Runs callables on the hosting agent's thread."""

        def __init__(self, agent_name):
            super().__init__("_ctl_" + agent_name)

        def on_message(self, sender, msg, t):
            msg.content()

    class Recorder(MessagePassingComputation):
        """Records what it handles; `log` is a shared list of tuples."""

        def __init__(self, name, log, sim):
            super().__init__(name)
            self.log = log
            self.sim = sim
            self._msg_handlers["x"] = self._on_x

        def _on_x(self, sender, msg, t):
            self.log.append(("handle", self.name, sender, msg.content, self.sim.next_event_no()))

    return Control, Recorder, Message


class Bare:
    def __init__(self, sim, agent_names, delay=None):
        from pydcop.infrastructure.agents import Agent
        from pydcop.infrastructure.communication import InProcessCommunicationLayer
        from pydcop.infrastructure.discovery import Directory
        self.sim = sim
        self.Control, self.Recorder, self.Message = make_classes()
        self.dir_agent = Agent("agt_dir", InProcessCommunicationLayer())
        self.directory = Directory(self.dir_agent.discovery)
        self.dir_agent.add_computation(self.directory.directory_computation)
        self.dir_agent.discovery.use_directory("agt_dir", self.dir_agent.address)
        self.dir_agent.start()
        self.dir_agent.run(self.directory.directory_computation.name)
        self.agents = {}
        self.controls = {}
        for name in agent_names:
            a = Agent(name, InProcessCommunicationLayer(), delay=delay)
            a.discovery.use_directory("agt_dir", self.dir_agent.address)
            ctl = self.Control(name)
            a.add_computation(ctl, publish=False)
            ctl._running = True          # technical computation: always accepts control messages
            a.start()
            self.agents[name] = a
            self.controls[name] = ctl

    def all_agents(self):
        return [self.dir_agent] + list(self.agents.values())

    def on_agent(self, name, fn, prio=10):
        """Queue `fn` for execution on agent `name`'s own thread (control message)."""
        a = self.agents[name]
        a._messaging.post_msg("_harness", "_ctl_" + name, self.Message("ctl", fn), prio)

    def quiet(self):
        for a in self.all_agents():
            if not a._messaging._queue.empty():
                return False
            if a.t.state == threadsim.RUNNABLE:
                return False
        return True

    def drain(self, timeout=60.0):
        """Block the driver until every queue is empty and every agent thread is parked."""
        ok = self.sim.block(self.quiet, timeout)
        return ok

    def shutdown(self):
        for a in self.all_agents():
            a.clean_shutdown()
        for a in self.all_agents():
            a.join()
