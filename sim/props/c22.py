"""C22 — orchestrated DPOP solve terminates and reports a true optimal result."""
from .. import gen, build
from ..truth import Truth, same_cost
from . import common, orch

ID = "C22"
ENGINE = "B"
TIMEOUT = 60.0
RULE = ("random DCOP (n<=6, dom<=3, arity<=3, unary, variable costs; one cost class in five has "
        "entries equal to the finite hard-constraint value 10000 handed to the runtime) x 1..4 agents x distribution "
        "from oneagent/adhoc/gh_cgdp (constant footprint fallback) or a tape-independent random "
        "valid mapping x metrics mode x the shipped solve sequence (run_local_thread_dcop, "
        "deploy_computations, run(timeout=60 virtual s)) on the real runtime under the baton "
        "scheduler with optional line-level pre-emption and thread stalls; non-trivial = >=2 "
        "agent threads exchanged messages, >=1 choice point, all oracles evaluated; distinct = "
        "SHA-256 of decision-and-event log")


def generate(rng, tier):
    case = gen.gen_dcop(
        rng, n_range=(1, 6 if tier == "thorough" else 5), dom_range=(1, 3),
        shapes=("random", "random", "tree", "chain", "star", "clique", "components"),
        arity3_p=0.2, unary_p=0.2, varcost_p=0.3,
        cost_classes=("small", "small", "signed", "float", "hard"), initial_p=0.1, max_space=600)
    case["algo"] = "dpop"
    case["params"] = {}
    comps = [v["name"] for v in case["variables"]]
    method = rng.choice(["random", "random", "oneagent", "adhoc", "gh_cgdp"])
    n_agents = len(comps) if method == "oneagent" else rng.randint(1, 4)
    if method == "oneagent" and rng.random() < 0.3:
        n_agents += 1
    case["agents"] = orch.gen_agents(rng, n_agents, comps)
    case["dist_method"] = method
    case["dist_seed"] = rng.randrange(1 << 30)
    case["collect_moment"] = rng.choice(["value_change", "cycle_change", "period"])
    case["period"] = rng.choice([0.1, 1.0]) if case["collect_moment"] == "period" else None
    case["no_var_drop"] = method == "oneagent"
    return case


def compute_distribution(case, built, graph):
    """A valid mapping agent -> computations (method from the case; random fallback)."""
    import importlib
    import random
    names = [a["name"] for a in case["agents"]]
    comps = [n.name for n in graph.nodes]
    method = case["dist_method"]
    if method != "random":
        try:
            mod = importlib.import_module("pydcop.distribution." + method)
            dist = mod.distribute(graph, built.dcop.agents.values(),
                                  computation_memory=lambda *a, **k: 1,
                                  communication_load=lambda *a, **k: 1)
            # agents of the DCOP that the method left out stay out of the Distribution
            # (spare agents: they register and run, but host nothing)
            mapping = {a: list(dist.computations_hosted(a)) for a in dist.agents}
            return mapping, method
        except Exception:
            pass
    rng = random.Random(case["dist_seed"])
    mapping = orch.random_mapping(rng, names, comps)
    if rng.random() < 0.5:
        # leave the agents that host nothing out of the Distribution (spare agents)
        mapping = {a: cs for a, cs in mapping.items() if cs} or mapping
    return mapping, "random"


def execute(case, tape):
    out = common.outcome()
    truth = Truth(case)
    cfg = orch.sim_config(tape)
    feats = dict(algo="dpop", dist=case["dist_method"], collect=case["collect_moment"],
                 preempt=cfg["preempt_p"] > 0)
    out["subspace"] = f"{case['dist_method']}/{case['collect_moment']}/preempt={feats['preempt']}"
    result = {}
    built = build.Built(case)
    with orch.runtime(tape, cfg, max_time=TIMEOUT * 3) as sim:
        try:
            graph = built.graph("dpop")
            mapping, used = compute_distribution(case, built, graph)
            case = dict(case, distribution=mapping)
            orchestrator, _, _, _ = orch.build_orchestrated(
                case, built, collect_moment=case["collect_moment"], period=case["period"])
            orchestrator.deploy_computations()
            orchestrator.run(timeout=TIMEOUT)
            result["status"] = orchestrator.status
            result["end_time"] = sim.now
            result["metrics"] = orchestrator.end_metrics()
            result["solution_cost"] = None
            m = result["metrics"]
            if m["assignment"] and set(m["assignment"]) >= set(truth.names):
                asg = {k: m["assignment"][k] for k in truth.names}
                result["solution_cost"] = built.dcop.solution_cost(asg, orch.INFINITY)
        except orch.threadsim.SimAbort as e:
            result["abort"] = str(e)
        except Exception as e:
            import traceback
            result["driver_error"] = repr(e) + "\n" + traceback.format_exc()[-1500:]
    orch.stats_from(sim, out)
    out["stats"]["dist_" + used] += 1
    if sim.fatal.errors:
        a, e, tb = sim.fatal.errors[0]
        out["sut_error"] = e
        out["violations"].append(common.violation(
            "no_agent_crash", f"agent thread {a} died: {e}\n{tb}", exc=e.split("(")[0], **feats))
        return out
    if "driver_error" in result:
        out["sut_error"] = result["driver_error"]
        out["violations"].append(common.violation(
            "no_exception", result["driver_error"], exc=result["driver_error"].split("(")[0],
            **feats))
        return out
    if "abort" in result:
        out["violations"].append(common.violation(
            "terminates", f"run aborted: {result['abort']} at virtual t={sim.now:.3f} after "
            f"{sim.steps} steps", reason=result["abort"], **feats))
        return out
    if result["status"] == "TIMEOUT" or result["end_time"] >= TIMEOUT:
        out["violations"].append(common.violation(
            "ends_by_completion", f"status={result['status']} at virtual t="
            f"{result['end_time']:.3f} (timeout {TIMEOUT})", **feats))
        return out
    m = result["metrics"]
    asg = m["assignment"]
    missing = [n for n in truth.names if n not in asg or asg[n] not in truth.dom[n]]
    if missing:
        out["violations"].append(common.violation(
            "assignment_complete", f"reported assignment {asg} lacks a domain value for "
            f"{missing}", **feats))
        return out
    asg = {k: asg[k] for k in truth.names}
    best, _, arg = truth.optimum()
    got = truth.cost(asg)
    if not same_cost(got, best):
        out["violations"].append(common.violation(
            "optimal", f"reported assignment {asg} costs {got}, optimum {best} ({arg})", **feats))
        return out
    viol, cost = result["solution_cost"]
    if m["cost"] is None or not same_cost(m["cost"], cost) or m["violation"] != viol:
        out["violations"].append(common.violation(
            "reported_cost_is_dcop_cost", f"end_metrics cost={m['cost']} violation="
            f"{m['violation']} but dcop.solution_cost gives ({viol}, {cost})", **feats))
        return out
    # independent accounting: terms equal to infinity are counted, the rest summed
    if not same_cost(cost, got) and viol == 0:
        out["violations"].append(common.violation(
            "reported_cost_is_true_cost", f"solution_cost={cost}, ground truth {got}", **feats))
        return out
    out["stats"]["oracle_evaluated"] += 1
    out["nontrivial"] = (sim.stats["threads"] >= 3 and sim.stats["handoffs"] >= 2
                         and tape.choice_points >= 1)
    return out


RUN_TIMEOUT_S = 120
BUDGET = {"quick": (6000, 75), "thorough": (120000, 1200)}
REAL = ["pydcop.infrastructure.run.run_local_thread_dcop", "Orchestrator", "AgentsMgt",
        "OrchestratedAgent", "OrchestrationComputation", "Agent", "Messaging", "Discovery",
        "Directory", "InProcessCommunicationLayer", "pydcop.algorithms.dpop",
        "pydcop.distribution.{oneagent,adhoc,gh_cgdp}", "DCOP.solution_cost"]
STUB = ["threading.Thread/Event/Timer, queue.PriorityQueue, time.perf_counter/sleep (simulator "
        "primitives on real OS threads, virtual clock)"]
ASSUMPTIONS = ["thread mode only (all agents in one interpreter)",
               "pre-emption happens at synchronisation points and, when enabled, at traced line "
               "boundaries of pydcop/infrastructure; a single bytecode-atomic statement is never split",
               "DPOP's computation_memory raises NotImplementedError, so adhoc/gh_cgdp get a "
               "constant footprint (what commands/solve.py installs when the attribute is missing)"]
LEVEL = "exploration"
LEVEL_TEXT = ("Seeded search over DCOPs, agent sets, distributions, metrics modes and thread "
              "schedules of the complete orchestrated solve; oracles: ended by completion before "
              "the virtual timeout, assignment complete and optimal (brute force), reported "
              "cost/violation equal to DCOP.solution_cost and to ground truth.")
LEVEL_NOTE = "Trusted: threadsim scheduler/clock, brute-force ground truth, n<=6, <=4 agents."
TECHNIQUE = "deterministic simulation: baton-scheduled real threads in virtual time + brute-force oracle"
DESIGN_REF = "DESIGN.md §7 C22"
