"""Shared workload for C25 / C27: resilient deployments (replication, removal, repair)."""
import collections

from .. import gen, build
from . import orch


def gen_resilient(rng, tier, n_agents=(3, 6), per_agent=(1, 3), algos=("dsa", "mgm", "maxsum"),
                  tight=True, k_range=(1, 3), max_maxsum_vars=6,
                  shapes=("connected", "connected", "tree", "chain", "star", "clique")):
    n_a = rng.randint(*n_agents)
    agents = [f"a{i}" for i in range(n_a)]
    algo = rng.choice(list(algos))
    if algo == "maxsum":
        # computations = variables + factors
        n_vars = max(2, min(max_maxsum_vars, rng.randint(n_a // 2, n_a)))
    else:
        n_vars = max(2, min(7, sum(rng.randint(*per_agent) for _ in agents)))
    case = gen.gen_dcop(rng, n_range=(n_vars, n_vars), dom_range=(2, 3),
                        shapes=shapes,
                        arity3_p=0.0, unary_p=0.0, varcost_p=0.0, cost_classes=("small",),
                        initial_p=0.0, str_domain_p=0.0, max_space=3000, renders=("matrix",))
    case["algo"] = algo
    p = {}
    if algo in ("dsa", "mgm"):
        p["stop_cycle"] = 0
    case["params"] = p
    case["agents"] = orch.gen_agents(rng, n_a, capacity=(1000, 1000))
    for a in case["agents"]:
        a["slack"] = rng.choice([0, 1, 2, 3, 5, 8]) if tight else 1000
    case["k"] = rng.randint(*k_range)
    case["dist_seed"] = rng.randrange(1 << 30)
    case["no_var_drop"] = True
    return case


def spread_mapping(rng, agents, comps):
    """Every agent hosts at least one computation when possible (1-2 each, then random)."""
    mapping = {a: [] for a in agents}
    cs = list(comps)
    rng.shuffle(cs)
    order = list(agents)
    rng.shuffle(order)
    i = 0
    for a in order:
        if i < len(cs):
            mapping[a].append(cs[i])
            i += 1
    while i < len(cs):
        mapping[rng.choice(order)].append(cs[i])
        i += 1
    return mapping


def prepare(case, built):
    """Compute the distribution and the real capacities (hosted footprints + slack)."""
    import random
    from pydcop.algorithms import load_algorithm_module
    graph = built.graph(case["algo"])
    comps = [n.name for n in graph.nodes]
    agents = [a["name"] for a in case["agents"]]
    mapping = spread_mapping(random.Random(case["dist_seed"]), agents, comps)
    mod = load_algorithm_module(case["algo"])
    foot = {n.name: mod.computation_memory(n) for n in graph.nodes}
    for a in case["agents"]:
        hosted = sum(foot[c] for c in mapping[a["name"]])
        cap = hosted + a["slack"]
        built.dcop.agents[a["name"]]._attr["capacity"] = cap
    return graph, mapping, foot


class ReplicationAudit:
    """Recomputes the acceptance rule from the state just before each acceptance and records
    the hosts reported by every agent."""

    def __init__(self, sim, k):
        self.sim = sim
        self.k = k
        self.violations = []
        self.acceptances = 0
        self.at_edge = 0
        self.reported = {}          # agent -> {computation: hosts}
        self._undo = []

    def install(self):
        import itertools
        import pydcop.replication.dist_ucs_hostingcosts as ucs
        import pydcop.infrastructure.orchestrator as orchestrator
        audit = self
        orig_accept = ucs.UCSReplication._accept_replica

        def _accept_replica(rep, origin_agt, comp_def, footprint):
            audit.acceptances += 1
            remaining = rep.agent_def.capacity
            for hosted in rep.agent.computations():
                if hasattr(hosted, "footprint"):
                    remaining -= hosted.footprint()
            per_owner = collections.defaultdict(float)
            for cname, (owner, f) in rep._hosted_replicas.items():
                per_owner[owner] += f
            k = audit.k
            worst = sum(sorted(per_owner.values(), reverse=True)[:max(0, k - 1)])
            need = footprint + worst
            if remaining == need:
                audit.at_edge += 1
            if remaining < need and len(audit.violations) < 3:
                audit.violations.append(
                    f"{rep.agt_name} accepted a replica of {comp_def.name} (footprint "
                    f"{footprint}) from {origin_agt} with remaining capacity {remaining} < "
                    f"{footprint} + worst case for k-1={k - 1} owners {worst} "
                    f"(replicas held per owner: {dict(per_owner)})")
            if comp_def.name in rep._hosted_replicas and len(audit.violations) < 3:
                audit.violations.append(f"{rep.agt_name} accepted {comp_def.name} twice")
            return orig_accept(rep, origin_agt, comp_def, footprint)
        ucs.UCSReplication._accept_replica = _accept_replica
        self._undo.append((ucs.UCSReplication, "_accept_replica", orig_accept))
        orig_msg = orchestrator.AgentsMgt._on_computation_replicated_msg

        def _on_computation_replicated_msg(mgt, sender, msg, t):
            audit.reported[msg.agent] = {c: list(h) for c, h in dict(msg.replica_hosts).items()}
            return orig_msg(mgt, sender, msg, t)
        orchestrator.AgentsMgt._on_computation_replicated_msg = _on_computation_replicated_msg
        self._undo.append((orchestrator.AgentsMgt, "_on_computation_replicated_msg", orig_msg))

    def uninstall(self):
        for cls, name, f in reversed(self._undo):
            setattr(cls, name, f)
        self._undo = []
