"""C19 — messages held across start or pause keep their original order."""
import collections

from . import common, orch, bare

ID = "C19"
ENGINE = "B"
RULE = ("a recorder computation R on a real Agent, peers injecting receptions into the agent's "
        "Messaging from foreign threads, a target T on another agent; generated op history "
        "(<=25 ops over recv(p,m), start, pause, resume, post(R->T,m)); start/pause/resume/post "
        "run on the agent thread through a control message; after each op the driver either "
        "continues or drains (tape-chosen); optional line pre-emption; non-trivial = at least "
        "one reception was buffered (before start or while paused) or one post was held, >=2 "
        "threads; distinct = SHA-256 of decision-and-event log")


def generate(rng, tier):
    n = rng.randint(3, 25 if tier == "thorough" else 18)
    ops = []
    started = rng.random() < 0.4
    if started:
        ops.append(["start"])
    serial = 0
    paused = False
    has_started = started
    for _ in range(n):
        r = rng.random()
        if r < 0.45:
            serial += 1
            ops.append(["recv", f"p{rng.randint(1, 3)}", serial])
        elif r < 0.6:
            serial += 1
            ops.append(["post", serial])
        elif r < 0.72 and not has_started:
            ops.append(["start"])
            has_started = True
        elif r < 0.86:
            ops.append(["pause"])
            paused = True
        else:
            ops.append(["resume"])
            paused = False
    if not has_started:
        ops.append(["start"])
    ops.append(["resume"])
    case = {"ops": ops, "wait_p": rng.choice([0.0, 0.3, 0.7, 1.0])}
    posts = [op[1] for op in ops if op[0] == "post"]
    # transport fault: sending one chosen post raises once (an unreachable destination in
    # 'fail' mode), possibly in the middle of the flush done by resume
    case["fail_post"] = rng.choice(posts) if posts and rng.random() < 0.25 else None
    return case


def shrink_candidates(case):
    import copy
    ops = case["ops"]
    for i in range(len(ops)):
        if ops[i][0] == "start" and sum(1 for o in ops if o[0] == "start") == 1:
            continue
        c = copy.deepcopy(case)
        del c["ops"][i]
        yield c
    if case["wait_p"] not in (0.0, 1.0):
        for w in (0.0, 1.0):
            c = copy.deepcopy(case)
            c["wait_p"] = w
            yield c


def execute(case, tape):
    out = common.outcome()
    cfg = orch.sim_config(tape)
    feats = dict(preempt=cfg["preempt_p"] > 0)
    log = []
    result = {}
    with orch.runtime(tape, cfg, max_time=400.0, max_steps=200000) as sim:
        try:
            b = bare.Bare(sim, ["A", "B"])
            R = b.Recorder("R", log, sim)
            T = b.Recorder("T", log, sim)
            # observe receptions at R (on_message entry) and whether they are buffered
            orig_on_message = R.on_message

            def on_message(sender, msg, t):
                active = R.is_running and not R.is_paused
                log.append(("recv", "R", sender, msg.content, sim.next_event_no(), active))
                return orig_on_message(sender, msg, t)
            R.on_message = on_message
            b.on_agent("A", lambda: b.agents["A"].add_computation(R))
            b.on_agent("B", lambda: (b.agents["B"].add_computation(T), T.start()))
            b.drain()

            class InjectedSendFailure(Exception):
                pass
            fault = {"fired": None}
            if case.get("fail_post") is not None:
                real_sender = R._msg_sender

                def faulty_sender(src, dst, msg, prio=None, on_error=None):
                    if fault["fired"] is None and getattr(msg, "content", None) == case["fail_post"]:
                        fault["fired"] = sim.next_event_no()
                        sim.stats["fault_send_failures"] = sim.stats.get("fault_send_failures", 0) + 1
                        raise InjectedSendFailure(f"cannot send post {msg.content}")
                    return real_sender(src, dst, msg, prio, on_error)
                R._msg_sender = faulty_sender

            def guarded(fn):
                def run_it():
                    try:
                        fn()
                    except InjectedSendFailure:
                        log.append(("send_failed", sim.next_event_no()))
                return run_it

            def do(op):
                kind = op[0]
                if kind == "recv":
                    b.agents["A"]._messaging.post_msg(op[1], "R", b.Message("x", op[2]))
                elif kind == "start":
                    b.on_agent("A", lambda: (log.append(("op", "start", sim.next_event_no())),
                                             R.start()))
                elif kind == "pause":
                    b.on_agent("A", lambda: (log.append(("op", "pause", sim.next_event_no())),
                                             R.pause(True)))
                elif kind == "resume":
                    b.on_agent("A", guarded(lambda: (log.append(("op", "resume", sim.next_event_no())),
                                                     R.pause(False))))
                elif kind == "post":
                    serial = op[1]
                    b.on_agent("A", guarded(lambda: (
                        log.append(("op", "post", sim.next_event_no(), serial, R.is_paused)),
                        R.post_msg("T", b.Message("x", serial)))))
            for op in case["ops"]:
                do(op)
                if tape.coin(case["wait_p"]):
                    b.drain()
            b.drain()
            if fault["fired"] is not None:
                # what the failed flush left in the buffers goes out with the next resume
                do(["resume"])
            result["drained"] = b.drain()
            result["fault_fired"] = fault["fired"]
            b.shutdown()
        except orch.threadsim.SimAbort as e:
            result["abort"] = str(e)
        except Exception as e:
            import traceback
            result["driver_error"] = repr(e) + "\n" + traceback.format_exc()[-1200:]
    orch.stats_from(sim, out)
    if sim.fatal.errors:
        a, e, tb = sim.fatal.errors[0]
        out["sut_error"] = e
        out["violations"].append(common.violation(
            "no_exception", f"agent thread {a} died: {e}\n{tb}", exc=e.split("(")[0], **feats))
        return out
    if "driver_error" in result or "abort" in result:
        msg = result.get("driver_error") or result.get("abort")
        out["sut_error"] = msg
        out["violations"].append(common.violation(
            "no_exception" if "driver_error" in result else "drains",
            f"{msg} at virtual t={sim.now:.2f}", **feats))
        return out
    # ---- oracle over the recorded history --------------------------------------
    first_recv = {}
    handled = collections.Counter()
    handle_order = []
    buffered = 0
    for ev in log:
        if ev[0] == "recv":
            key = (ev[2], ev[3])
            if key not in first_recv:
                first_recv[key] = ev[4]
                if not ev[5]:
                    buffered += 1
        elif ev[0] == "handle" and ev[1] == "R":
            key = (ev[2], ev[3])
            handled[key] += 1
            handle_order.append(key)
    sent_recv = [(op[1], op[2]) for op in case["ops"] if op[0] == "recv"]
    viol = None
    for key in sent_recv:
        if handled[key] != 1:
            viol = ("handled_exactly_once", f"reception {key} was handled {handled[key]} times "
                    f"(handle order {handle_order})")
            break
    faulted = result.get("fault_fired") is not None
    if faulted:
        feats["send_failure"] = True
    if viol is None and not faulted:       # a failed flush leaves receptions buffered: the order
        idx = [first_recv[k] for k in handle_order]     # around it is not specified
        if idx != sorted(idx):
            viol = ("handled_in_reception_order", f"R handled {handle_order} but first received "
                    f"them in order {sorted(handle_order, key=lambda k: first_recv[k])}")
    # posts: exactly once at T, in posting order, held ones not before the next resume
    posts = [ev for ev in log if ev[0] == "op" and ev[1] == "post"]
    post_order = [ev[3] for ev in posts]
    arrivals = [(ev[3], ev[4]) for ev in log if ev[0] == "handle" and ev[1] == "T"]
    arr_order = [a for a, _ in arrivals]
    held = sum(1 for ev in posts if ev[4])
    if viol is None and faulted:
        # an injected send failure: the failed post must not arrive, every other post exactly
        # once; the order around a failed flush is not specified and not checked
        want = sorted(x for x in post_order if x != case["fail_post"])
        if sorted(arr_order) != want:
            viol = ("posts_sent_exactly_once", f"R posted {post_order} (sending "
                    f"{case['fail_post']} failed once), T received {arr_order}")
    elif viol is None:
        if sorted(arr_order) != sorted(post_order):
            viol = ("posts_sent_exactly_once", f"R posted {post_order}, T received {arr_order}")
        elif arr_order != post_order:
            viol = ("posts_in_posting_order", f"R posted {post_order} but T received {arr_order}")
        else:
            resumes = [ev[2] for ev in log if ev[0] == "op" and ev[1] == "resume"]
            arr_at = dict(arrivals)
            for ev in posts:
                if ev[4]:
                    nxt = [r for r in resumes if r > ev[2]]
                    if nxt and arr_at[ev[3]] < nxt[0]:
                        viol = ("held_posts_wait_for_resume", f"post {ev[3]} made while paused "
                                f"(event {ev[2]}) reached T at event {arr_at[ev[3]]}, before the "
                                f"resume at event {nxt[0]}")
                        break
    if viol:
        # did a start/resume re-inject messages while an earlier re-injection was still in
        # the agent's queue?  (reconstructed from the history only)
        in_flight, buf, overlap = set(), [], False
        for ev in log:
            if ev[0] == "recv":
                key = (ev[2], ev[3])
                in_flight.discard(key)
                if not ev[5]:
                    buf.append(key)
            elif ev[0] == "op" and ev[1] in ("start", "resume"):
                if in_flight and buf:
                    overlap = True
                in_flight.update(buf)
                buf = []
        feats["reinject_overlap"] = overlap
        out["violations"].append(common.violation(viol[0], viol[1], **feats))
    out["stats"]["receptions_buffered"] += buffered
    out["stats"]["posts_held"] += held
    out["stats"]["ops"] += len(case["ops"])
    out["nontrivial"] = (buffered + held) > 0 and sim.stats["threads"] >= 3
    return out


RUN_TIMEOUT_S = 120
BUDGET = {"quick": (16000, 75), "thorough": (300000, 900)}
REAL = ["pydcop.infrastructure.computations.MessagePassingComputation (start/pause/on_message/"
        "post_msg)", "Agent", "Messaging", "Discovery", "Directory", "InProcessCommunicationLayer"]
STUB = ["threading/queue/time primitives (threadsim)", "recorder and control computations are "
        "harness code built on MessagePassingComputation"]
ASSUMPTIONS = ["reception = the instant the hosting agent hands the message to on_message; the "
               "oracle compares handling order with first-reception order",
               "ops are executed on the agent thread by a control message of management priority"]
LEVEL = "exploration"
LEVEL_TEXT = ("Seeded search over op histories and thread schedules on the real Agent/Messaging; "
              "history oracle: every reception handled exactly once in first-reception order, "
              "never while not started or paused; posts made while paused reach the target "
              "exactly once, in posting order, after the resume.")
LEVEL_NOTE = "Trusted: threadsim scheduler; histories <= 25 ops."
TECHNIQUE = "deterministic simulation: op-history generation + reference-order oracle on the real agent"
DESIGN_REF = "DESIGN.md §7 C19"
