"""C08 — synchronous computations run in proper rounds under any async order."""
import collections

from .. import gen, seams, build
from ..compsim import CompSim, Observer, draw_config
from . import common

ID = "C08"
ENGINE = "A"
RULE = ("(a) a probe computation using SynchronousComputationMixin on random graphs (n<=7, any "
        "degree) sending each round an algorithm message to a tape-chosen subset of neighbours, "
        "half through post_msg and half through the list returned by on_new_cycle; (b) real "
        "maxsum and dsatuto computations on random DCOPs; x tape-drawn start order and FIFO "
        "delivery; non-trivial = >=2 parties, >=1 choice point, >=3 rounds completed by every "
        "computation with neighbours and at least one algorithm message and one implicit "
        "synchronisation handed over; distinct = SHA-256 of decision-and-event log")
ROUNDS = 6


def generate(rng, tier):
    kind = rng.choice(["probe", "probe", "maxsum", "dsatuto"])
    if kind == "probe":
        n = rng.randint(1, 7)
        names = [f"p{i}" for i in range(n)]
        shape = rng.choice(["random", "random", "tree", "chain", "star", "clique",
                            "components", "connected"])
        edges = gen.edges_for_shape(rng, names, shape, rng.choice([0.3, 0.5, 0.8]))
        return {"kind": "probe", "nodes": names, "edges": [list(e) for e in edges],
                "send_p": rng.choice([0.0, 0.3, 0.5, 0.8, 1.0]), "shape": shape,
                "no_var_drop": True}
    case = gen.gen_dcop(rng, n_range=(1, 6), dom_range=(1, 3),
                        shapes=("random", "tree", "chain", "star", "clique", "components"),
                        arity3_p=0.2, unary_p=0.2, varcost_p=0.2,
                        cost_classes=("small", "signed"), initial_p=0.2, max_space=1000)
    case["kind"] = kind
    case["algo"] = kind
    case["params"] = {}
    if kind == "maxsum":
        case["params"] = {"damping": rng.choice([0.0, 0.5]), "noise": 0.0,
                          "stability": rng.choice([0.1, 0.0]),
                          "start_messages": rng.choice(["leafs", "leafs_vars", "all"])}
    return case


def shrink_candidates(case):
    import copy
    if case.get("kind") != "probe":
        return
    for i in range(len(case["edges"])):
        c = copy.deepcopy(case)
        del c["edges"][i]
        yield c
    for node in case["nodes"]:
        if len(case["nodes"]) > 1:
            c = copy.deepcopy(case)
            c["nodes"].remove(node)
            c["edges"] = [e for e in c["edges"] if node not in e]
            yield c


def make_probe_class():
    from pydcop.infrastructure.computations import (
        MessagePassingComputation, SynchronousComputationMixin, register, Message)

    class ProbeMessage(Message):
        def __init__(self, payload):
            super().__init__("probe", payload)

    class Probe(SynchronousComputationMixin, MessagePassingComputation):
        def __init__(self, name, neighbors, tape, send_p):
            super().__init__(name)
            self._nb = list(neighbors)
            self._tape = tape
            self._send_p = send_p
            self.serial = 0

        @property
        def neighbors(self):
            return list(self._nb)

        @register("probe")
        def _on_probe(self, sender, msg, t):
            pass

        def _emit(self, via_list_ok):
            out = []
            for nb in self._nb:
                if self._tape.coin(self._send_p):
                    self.serial += 1
                    m = ProbeMessage((self.name, self.serial))
                    if via_list_ok and self._tape.coin(0.5):
                        out.append((nb, m))
                    else:
                        self.post_msg(nb, m)
            return out

        def on_start(self):
            self._emit(False)

        def on_new_cycle(self, messages, cycle_id):
            return self._emit(True) or None

    return Probe


class Rounds(Observer):
    """Reference model of the rounds, independent of the mixin's own stamping."""

    def __init__(self):
        self.round_of = collections.defaultdict(int)      # computation -> its current round
        self.sent = collections.defaultdict(dict)         # (src, round) -> {dst: msg id}
        self.calls = collections.defaultdict(list)        # name -> [cycle_id, ...]
        self.violation = None
        self.algo_handed = 0
        self.sync_implied = 0

    def attach(self, sim):
        for name, c in sim.comps.items():
            self._wrap(sim, name, c)

    def _wrap(self, sim, name, c):
        orig = c.on_new_cycle

        def on_new_cycle(messages, cycle_id):
            self.check_call(sim, name, c, messages, cycle_id)
            self.round_of[name] = cycle_id + 1
            return orig(messages, cycle_id)
        c.on_new_cycle = on_new_cycle

    def on_post(self, sim, src, dst, msg, prio):
        if getattr(msg, "type", None) == "cycle_sync" or prio < 20:
            return
        r = self.round_of[src]
        d = self.sent[(src, r)]
        if dst in d and self.violation is None:
            # the algorithm itself sent twice: only the probe could, and it does not
            self.violation = ("harness", f"{src} sent two algorithm messages to {dst} in round {r}")
        d[dst] = id(msg)

    def check_call(self, sim, name, c, messages, cycle_id):
        if self.violation:
            return
        prev = self.calls[name]
        want_id = len(prev)
        prev.append(cycle_id)
        if cycle_id != want_id:
            self.violation = ("rounds_in_order", f"{name}: on_new_cycle called with cycle_id "
                              f"{cycle_id}, expected {want_id} (calls so far {prev})")
            return
        nbs = set(c.neighbors)
        extra = set(messages) - nbs
        if extra:
            self.violation = ("senders_are_neighbors", f"{name} round {cycle_id}: messages from "
                              f"non-neighbours {sorted(extra)}")
            return
        expected = {n: self.sent[(n, cycle_id)][name] for n in nbs
                    if name in self.sent.get((n, cycle_id), {})}
        got = {n: id(m[0]) for n, m in messages.items()}
        if got != expected:
            self.violation = (
                "round_messages_exact",
                f"{name} round {cycle_id}: handed messages from {sorted(got)} but the algorithm "
                f"messages sent to it in round {cycle_id} came from {sorted(expected)}"
                + ("" if set(got) != set(expected) else " (same senders, different message objects)"))
            return
        # every neighbour must itself have completed round cyc_id's sending phase
        for n in nbs:
            if self.round_of[n] < cycle_id:
                self.violation = ("round_barrier", f"{name} entered round {cycle_id + 1} while "
                                  f"neighbour {n} is still in round {self.round_of[n]}")
                return
        self.algo_handed += len(got)
        self.sync_implied += len(nbs) - len(got)


def execute(case, tape):
    out = common.outcome()
    rounds = Rounds()
    if case["kind"] == "probe":
        seams.reset_globals()
        seams.install_random(tape)
        Probe = make_probe_class()
        nb = {n: [] for n in case["nodes"]}
        for a, b in case["edges"]:
            nb[a].append(b)
            nb[b].append(a)
        comps = collections.OrderedDict(
            (n, Probe(n, sorted(nb[n]), tape, case["send_p"])) for n in case["nodes"])
        cfg = draw_config(tape)
        sim = CompSim(tape, comps, mode=cfg["mode"], policy=cfg["policy"], observers=[rounds],
                      max_events=20000)
        sim.config = cfg
    else:
        sim = common.engine_a(case, tape, observers=[rounds], max_events=40000)
    rounds.attach(sim)
    feats = dict(kind=case["kind"], mode=sim.config["mode"])
    out["subspace"] = case["kind"]
    connected = [c for c in sim.comps.values() if c.neighbors]

    def enough(s):
        return rounds.violation is not None or (
            len(s.started) == len(s.names)
            and all(len(rounds.calls[c.name]) >= ROUNDS for c in connected))
    status = sim.run(stop=enough if connected else None)
    common.finish_stats(out, sim, tape)
    if rounds.violation and rounds.violation[0] != "harness":
        out["violations"].append(common.violation(rounds.violation[0], rounds.violation[1], **feats))
        return out
    if status == "error":
        out["sut_error"] = sim.error[1]
        exc = sim.error[1].split("(")[0]
        oracle = "no_computation_exception" if exc == "ComputationException" else "no_exception"
        out["violations"].append(common.violation(
            oracle, f"{sim.error[0]}: {sim.error[1]}\n{sim.error[2][-1500:]}", exc=exc, **feats))
        return out
    if connected and status in ("quiescent", "cap"):
        out["violations"].append(common.violation(
            "rounds_progress", f"status={status}: rounds completed "
            f"{ {c.name: len(rounds.calls[c.name]) for c in connected} }, pending "
            f"{sim.pending()[:10]}", **feats))
        return out
    out["stats"]["algo_messages_handed"] += rounds.algo_handed
    out["stats"]["implicit_syncs"] += rounds.sync_implied
    out["nontrivial"] = (common.basic_nontrivial(sim, tape) and rounds.algo_handed > 0
                         and rounds.sync_implied > 0)
    return out


BUDGET = {"quick": (120000, 75), "thorough": (2400000, 1500)}
REAL = ["pydcop.infrastructure.computations (SynchronousComputationMixin, "
        "MessagePassingComputation, SynchronizationMsg)", "pydcop.algorithms.maxsum",
        "pydcop.algorithms.dsatuto"]
STUB = ["Agent", "Messaging", "transport", "discovery (replaced by compsim FIFO channel model)",
        "the probe computation is harness code built on the real mixin"]
ASSUMPTIONS = ["channels reliable and FIFO per (sender, destination)",
               "NCBB is excluded: its on_new_cycle is unfinished code that fails on its first "
               "message for reasons unrelated to the mixin",
               "the reference model stamps rounds itself (start = round 0, inside "
               "on_new_cycle(_, r) = round r+1) and never reads the mixin's cycle ids"]
LEVEL = "exploration"
LEVEL_TEXT = ("Seeded search over graphs, per-round send subsets, start orders and FIFO "
              "deliveries; a round-by-round reference model checks every on_new_cycle call "
              "(order, exactly-once, exact message set, barrier) and that no "
              "ComputationException is raised.")
LEVEL_NOTE = "Trusted: compsim FIFO channel model; NCBB excluded (see assumptions)."
TECHNIQUE = "deterministic simulation: seeded schedule search + round-by-round reference model"
DESIGN_REF = "DESIGN.md §7 C08"
