"""C03 — MGM and MGM2 never worsen the global cost between cycles."""
from . import common, localsearch as ls

ID = "C03"
ENGINE = "A"
RULE = ("random DCOP (n<=7, binary and 3-ary, with/without variable costs, min/max) x mgm|mgm2 "
        "with swarm parameters x tape-drawn FIFO schedule and every algorithm random choice; "
        "non-trivial = some value changed between two cycle boundaries and >=2 parties "
        "exchanged messages; distinct = SHA-256 of decision-and-event log")


def generate(rng, tier):
    return ls.gen_localsearch(rng, tier, ("mgm", "mgm2"))


def execute(case, tape):
    out = common.outcome()
    truth, hist, sim, status = ls.run(case, tape)
    feats = ls.features(case, sim)
    out["subspace"] = f"{case['algo']}/{case['objective']}/vc={feats['varcosts']}"
    common.finish_stats(out, sim, tape)
    if status == "error":
        out["sut_error"] = sim.error[1]      # decided by C07, inconclusive here
        out["stats"]["inconclusive_sut_error"] += 1
    A = ls.cycle_assignments(truth, hist, sim)
    changed_any = False
    aligned = 0
    for k in range(len(A) - 1):
        a, b = A[k], A[k + 1]
        ca, cb = truth.cost(a), truth.cost(b)
        out["stats"]["cycle_boundaries"] += 1
        movers = [n for n in a if a[n] != b[n]]
        if movers:
            changed_any = True
            out["stats"]["cycles_with_move"] += 1
        if truth.better(ca, cb):
            pair = any((x, y, k + 1, True) in hist.go and (y, x, k + 1, True) in hist.go
                       for x in movers for y in a if x != y)
            out["violations"].append(common.violation(
                "monotone", f"cycle {k + 1}->{k + 2}: cost {ca} -> {cb}; {a} -> {b}; "
                f"movers {movers}", pair_move=pair, **feats))
            break
        # constraint-sharing simultaneous movers must be a coordinated MGM2 pair
        bad = None
        for i, x in enumerate(movers):
            for y in movers[i + 1:]:
                if any(y in con[1] for con in truth.cons_of[x]):
                    cyc = k + 1
                    ok = (case["algo"] == "mgm2" and (x, y, cyc, True) in hist.go
                          and (y, x, cyc, True) in hist.go)
                    if ok:
                        out["stats"]["coordinated_moves"] += 1
                    else:
                        bad = (x, y)
        if bad:
            out["violations"].append(common.violation(
                "exclusive_movers", f"cycle {k + 1}->{k + 2}: neighbours {bad} both changed "
                f"value without a two-way go handshake; {a} -> {b}", **feats))
            break
    out["nontrivial"] = changed_any and common.basic_nontrivial(sim, tape)
    return out


BUDGET = {"quick": (80000, 75), "thorough": (1600000, 1500)}
REAL = ["pydcop.algorithms.mgm", "pydcop.algorithms.mgm2", "pydcop.dcop.relations",
        "pydcop.computations_graph.constraints_hypergraph", "pydcop.infrastructure.computations"]
STUB = ["Agent", "Messaging", "transport", "discovery (replaced by compsim FIFO channel model)"]
ASSUMPTIONS = ["channels reliable and FIFO per (sender, destination)",
               "the logical cycle assignment A_k (value held by each computation when it enters "
               "cycle k) is the real assignment of the lock-step schedule with the same random "
               "outcomes, which is a legal execution",
               "global cost = constraints + variables' own costs, computed from the case tables"]
LEVEL = "exploration"
LEVEL_TEXT = ("Seeded search over DCOPs, algorithm parameters, FIFO schedules and all random "
              "choices of MGM/MGM2; per-cycle history check of the ground-truth global cost and "
              "of the exclusive-mover rule (two-way go handshake seen on the network).")
LEVEL_NOTE = "Trusted: compsim FIFO channel model, ground truth from the case tables, n<=7."
TECHNIQUE = "deterministic simulation: seeded schedule search + per-cycle history oracle"
DESIGN_REF = "DESIGN.md §7 C03"
