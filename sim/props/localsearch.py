"""Shared workload for C03 / C04 / C07: MGM, MGM2 (and DSA for C07) under Engine A."""
import collections

from .. import gen
from ..compsim import Observer
from ..truth import Truth
from . import common


def gen_localsearch(rng, tier, algos, stop_range=(3, 12), varcost_p=0.3, n_max=None):
    big = tier == "thorough"
    case = gen.gen_dcop(
        rng, n_range=(1, n_max or (7 if big else 6)), dom_range=(1, 3),
        shapes=("random", "random", "connected", "tree", "chain", "star", "clique",
                "components"),
        arity3_p=0.2, unary_p=0.15, varcost_p=rng.choice([0.0, 0.0, varcost_p, 0.8]),
        cost_classes=("small", "small", "signed", "float"), initial_p=0.3, max_space=2000)
    algo = rng.choice(list(algos))
    params = {"stop_cycle": rng.randint(*stop_range)}
    if algo == "mgm2":
        params["threshold"] = rng.choice([0.2, 0.5, 0.8])
        params["favor"] = rng.choice(["unilateral", "no", "coordinated"])
    elif algo == "mgm":
        params["break_mode"] = rng.choice(["lexic", "random"])
    elif algo == "dsa":
        params["variant"] = rng.choice(["A", "B", "C"])
        params["probability"] = rng.choice([0.3, 0.7, 1.0])
    case["algo"] = algo
    case["params"] = params
    return case


class History(Observer):
    """Value held by each computation when it enters cycle k; go messages; finishes."""

    def __init__(self):
        self.held = collections.defaultdict(dict)     # name -> {cycle: value}
        self.go = set()                               # (src, dst, cycle of src, go)
        self.finish_cycle = {}
        self.finish_in_start = set()
        self.in_start = None

    def on_cycle(self, sim, name, count):
        self.held[name][count] = sim.comps[name].current_value

    def on_post(self, sim, src, dst, msg, prio):
        if getattr(msg, "type", None) == "go?" and prio >= 20:
            self.go.add((src, dst, sim.comps[src].cycle_count, bool(msg.go)))

    def on_start(self, sim, name):
        self.in_start = name

    def after_event(self, sim, event):
        self.in_start = None

    def on_finished(self, sim, name):
        self.finish_cycle.setdefault(name, sim.comps[name].cycle_count)
        if self.in_start == name:
            self.finish_in_start.add(name)


def has_neighbors(truth, name):
    return any(len(con[1]) > 1 for con in truth.cons_of[name])


def run(case, tape, policies=None):
    truth = Truth(case)
    hist = History()
    k = case["params"].get("stop_cycle", 0)
    n = len(truth.names)
    sim = common.engine_a(case, tape, observers=[hist],
                          max_events=2000 + 400 * n * n * max(1, k), policies=policies)
    status = sim.run()
    return truth, hist, sim, status


def cycle_assignments(truth, hist, sim):
    """[A_1, A_2, ...]: assignment held at the start of each cycle every non-isolated
    computation reached; isolated variables contribute their (constant) selected value."""
    active = [n for n in truth.names if has_neighbors(truth, n)]
    isolated = [n for n in truth.names if n not in active]
    if not active:
        return []
    kmax = min((max(hist.held[n]) if hist.held[n] else 0) for n in active)
    out = []
    for k in range(1, kmax + 1):
        if any(k not in hist.held[n] for n in active):
            break
        asg = {n: hist.held[n][k] for n in active}
        for n in isolated:
            asg[n] = sim.comps[n].current_value
        if any(asg[n] not in truth.dom[n] for n in asg):
            break
        out.append(asg)
    return out


def features(case, sim):
    varcosts = any(v.get("cost") for v in case["variables"])
    arity = max([len(c["scope"]) for c in case["constraints"]] or [0])
    f = dict(algo=case["algo"], objective=case["objective"], varcosts=varcosts,
             nary=arity > 2, mode=sim.config["mode"])
    if case["algo"] == "mgm2":
        f["favor"] = case["params"].get("favor")
    return f
