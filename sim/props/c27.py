"""C27 — after an agent removal every computation runs on exactly one live agent."""
import hashlib
import itertools
import random

from .. import build
from . import common, orch, resilient, c22

ID = "C27"
ENGINE = "B"
LEVEL = "fault_enumeration"
GROUP = 21          # max number of departing subsets of size 1..2 among 6 agents
RUN_T = 150.0       # virtual seconds given to run(scenario, timeout)
RULE = ("instances: 4..6 variables, 4..6 agents with ample capacity, k in {1,2}, a non-terminating "
        "algorithm (dsa/mgm with stop_cycle=0, maxsum); for each instance EVERY subset of 1..k "
        "agents is used as the departing set of one scenario event (run index i -> instance i//21, "
        "subset rank i%21; ranks beyond the instance's subset count are skipped); driver = the "
        "shipped `pydcop run` sequence (deploy, start_replication(k), wait_ready, run(scenario, "
        "timeout)) on the real runtime; schedules from the tape, line pre-emption in a third of "
        "the runs; non-trivial = the event was injected, at least one computation was orphaned "
        "and the repair outcome was audited; distinct = SHA-256 of decision-and-event log")


def subsets(agents, k):
    out = []
    for r in range(1, k + 1):
        out += [list(c) for c in itertools.combinations(agents, r)]
    return out


def generate_indexed(verif_seed, tier, index):
    inst, rank = divmod(index, GROUP)
    h = hashlib.sha256(f"{verif_seed}:C27:{tier}:inst{inst}".encode()).digest()
    rng = random.Random(int.from_bytes(h[:8], "big"))
    case = resilient.gen_resilient(rng, tier, n_agents=(4, 6), per_agent=(1, 1),
                                   algos=("dsa", "mgm", "maxsum", "dsa"), tight=False,
                                   k_range=(1, 2), max_maxsum_vars=3,
                                   shapes=("connected", "connected", "tree", "chain", "star",
                                           "clique", "components", "components", "forest"))
    agents = [a["name"] for a in case["agents"]]
    subs = subsets(agents, case["k"])
    case["instance"] = inst
    case["subset_rank"] = rank
    case["subset_count"] = len(subs)
    case["departing"] = subs[rank] if rank < len(subs) else None
    case["event_delay"] = rng.choice([0.2, 0.5, 1.0])
    case["msg_delay"] = rng.choice([0.02, 0.05])
    # a third of the scenarios have a second removal event (one agent), placed well after the
    # first repair; whom it removes is decided once replication is done: an agent holding a
    # replica of a computation orphaned by the first event (the likely new host), or any other
    h2 = hashlib.sha256(f"{verif_seed}:C27:{tier}:inst{inst}:rank{rank}".encode()).digest()
    rng2 = random.Random(int.from_bytes(h2[:8], "big"))
    case["second"] = None
    if case["departing"] is not None and len(agents) - len(case["departing"]) >= 3 \
            and rng2.random() < 0.34:
        case["second"] = {"rule": rng2.choice(["replica_holder", "replica_holder", "any"]),
                          "pick": rng2.randrange(1 << 16),
                          "delay": rng2.choice([30.0, 45.0, 60.0])}
    return case


def generate(rng, tier):
    return generate_indexed(rng.randrange(1 << 30), tier, rng.randrange(1 << 20))


class RepairWatch:
    def __init__(self, sim, originals):
        self.sim = sim
        self.originals = list(originals)
        self.pre_replicas = None
        self.pre_hosts = None
        self.departed = []
        self.dumps = []          # [(status, agent-side hosting, directory hosting, t)]
        self.events = []         # one record per removal event (replicas/hosts just before it)
        self.final_directory = None
        self.expected_dumps = 1
        self.stopping = False
        self.settle = 1.0
        self._undo = []

    def install(self):
        import pydcop.infrastructure.orchestrator as orchestrator
        w = self
        orig_evt = orchestrator.AgentsMgt._orchestrator_scenario_event
        orig_dump = orchestrator.AgentsMgt._dump_repair_metrics
        orig_stop = orchestrator.AgentsMgt._orchestrator_stop_agents

        def snapshot_dir(mgt):
            d = {}
            for c in w.originals:
                try:
                    d[c] = mgt.discovery.computation_agent(c)
                except Exception:
                    d[c] = None
            return d

        def scenario_event(mgt, msg, t):
            leaving = [a.args["agent"] for a in msg.content.actions if a.type == "remove_agent"]
            if not leaving:
                return orig_evt(mgt, msg, t)
            def replicas_of(c):
                try:
                    return sorted(mgt.discovery.replica_agents(c))
                except Exception:
                    return []
            rec = {"replicas": {c: replicas_of(c) for c in w.originals},
                   "hosts": snapshot_dir(mgt), "leaving": leaving, "t": w.sim.now,
                   "dumps_before": len(w.dumps)}
            w.events.append(rec)
            if w.pre_hosts is None:
                w.pre_replicas, w.pre_hosts = rec["replicas"], rec["hosts"]
            w.departed += leaving
            return orig_evt(mgt, msg, t)

        def dump(mgt, status, duration):
            live = {}
            for name, agent in w.sim.capture.agents.items():
                if name == "orchestrator" or name in w.departed:
                    continue
                live[name] = sorted(c.name for c in agent.computations()
                                    if c.name in w.originals)
            later = {}
            w.dumps.append((status, live, snapshot_dir(mgt), w.sim.now, later))
            from ..threadsim import SimTimer
            SimTimer(w.settle * 0.9, lambda: later.update(snapshot_dir(mgt))).start()
            res = orig_dump(mgt, status, duration)
            if len(w.dumps) >= w.expected_dumps and not w.stopping:
                # the harness plays the operator: stop the run shortly after the last repair
                # (what the timeout would do much later)
                w.stopping = True
                from ..threadsim import SimTimer
                SimTimer(w.settle, mgt._orchestrator._on_timeout).start()
            return res

        def stop_agents(mgt, *a):
            if w.final_directory is None:
                w.final_directory = snapshot_dir(mgt)
            return orig_stop(mgt, *a)

        orchestrator.AgentsMgt._orchestrator_scenario_event = scenario_event
        orchestrator.AgentsMgt._dump_repair_metrics = dump
        orchestrator.AgentsMgt._orchestrator_stop_agents = stop_agents
        self._undo = [(orchestrator.AgentsMgt, "_orchestrator_scenario_event", orig_evt),
                      (orchestrator.AgentsMgt, "_dump_repair_metrics", orig_dump),
                      (orchestrator.AgentsMgt, "_orchestrator_stop_agents", orig_stop)]
        # the two metrics files go to an in-memory table
        self.files = {}
        import io

        class MemFile(io.StringIO):
            def __init__(f, name, mode):
                super().__init__(w.files.get(name, "") if "a" in mode else "")
                f.seek(0, 2)
                f._name = name

            def close(f):
                w.files[f._name] = f.getvalue()
                super().close()

        def mem_open(name, mode="r", **kw):
            return MemFile(name, mode)
        orchestrator.open = mem_open

    def uninstall(self):
        import pydcop.infrastructure.orchestrator as orchestrator
        for cls, name, f in reversed(self._undo):
            setattr(cls, name, f)
        if "open" in orchestrator.__dict__:
            del orchestrator.open


def execute(case, tape):
    out = common.outcome()
    out["subspace"] = f"{case['algo']}/k={case['k']}/agents={len(case['agents'])}"
    if case.get("departing") is None:
        out["stats"]["skipped_rank_beyond_subsets"] += 1
        return out
    if not any(len(c["scope"]) > 1 for c in case["constraints"]):
        # every computation is isolated and finishes at start-up: the algorithm terminates on
        # its own, which the property excludes
        out["stats"]["skipped_algorithm_terminates"] += 1
        return out
    from pydcop.dcop.scenario import Scenario, DcopEvent, EventAction
    cfg = {"preempt_p": tape.pick([0.0, 0.0, 0.01]), "stall_p": tape.pick([0.0, 0.0, 0.02])}
    k = case["k"]
    departing = list(case["departing"])
    feats = dict(algo=case["algo"], k=k, n_departing=len(departing))
    built = build.Built(case)
    result = {}
    with orch.runtime(tape, cfg, max_time=RUN_T * (4 if case.get("second") else 2),
                      max_steps=900000 * (2 if case.get("second") else 1)) as sim:
        sim.step_cost = 0.0005
        graph, mapping, foot = resilient.prepare(case, built)
        watch = RepairWatch(sim, [n.name for n in graph.nodes])
        watch.install()
        try:
            case = dict(case, distribution=mapping)
            orchestrator, _, _, _ = orch.build_orchestrated(
                case, built, replication="dist_ucs_hostingcosts", delay=case.get("msg_delay"))
            orchestrator.deploy_computations()
            orchestrator.start_replication(k)
            ready = orchestrator.wait_ready()
            result["ready"] = ready
            events = [
                DcopEvent("d1", delay=case["event_delay"]),
                DcopEvent("e1", actions=[EventAction("remove_agent", agent=a) for a in departing]),
            ]
            second = case.get("second")
            if ready and second:
                disc = orchestrator.mgt.discovery
                owner0 = {c: a for a, cs in mapping.items() for c in cs}
                rest = sorted(a for a in mapping if a not in departing)
                holders = sorted({a for c in watch.originals if owner0[c] in departing
                                  for a in disc.replica_agents(c) if a in rest})
                pool = holders if (second["rule"] == "replica_holder" and holders) else rest
                result["second_agent"] = pool[second["pick"] % len(pool)]
                events += [DcopEvent("d2", delay=second["delay"]),
                           DcopEvent("e2", actions=[EventAction(
                               "remove_agent", agent=result["second_agent"])])]
                watch.expected_dumps = 2
            scenario = Scenario(events)
            if ready:
                orchestrator.run(scenario, timeout=RUN_T * (2 if second else 1))
            result["status"] = orchestrator.status
        except orch.threadsim.SimAbort as e:
            result["abort"] = str(e)
        except Exception as e:
            import traceback
            result["driver_error"] = repr(e) + "\n" + traceback.format_exc()[-1500:]
        finally:
            watch.uninstall()
    orch.stats_from(sim, out)
    owner = {c: a for a, cs in mapping.items() for c in cs}
    orphaned = [c for c in watch.originals if owner[c] in departing]
    feats["orphans"] = len(orphaned) > 0
    crash = ""
    if sim.fatal.errors:
        a, e, tb = sim.fatal.errors[0]
        out["sut_error"] = e
        out["stats"]["agent_thread_crashes"] += 1
        crash = f"; agent thread {a} died: {e}\n{tb}"
        feats["crash"] = e.split("(")[0] + "@" + ("orchestrator" if a == "orchestrator" else "agent")
    if "driver_error" in result:
        out["sut_error"] = result["driver_error"]
        out["violations"].append(common.violation(
            "no_exception", result["driver_error"], exc=result["driver_error"].split("(")[0],
            **feats))
        return out
    if "abort" in result and not watch.dumps:
        out["violations"].append(common.violation(
            "repair_completes", f"removal of {departing} (orphans {orphaned}): run aborted "
            f"({result['abort']}) at virtual t={sim.now:.2f} before any repair outcome was "
            f"reported" + crash, reason=result["abort"], event=1, **feats))
        return out
    if "abort" in result:
        out["stats"]["aborted_after_repair_report"] += 1
    if watch.pre_hosts is None:
        out["violations"].append(common.violation(
            "event_injected", f"the scenario event was never handled (status "
            f"{result.get('status')}, ready={result.get('ready')})", **feats))
        return out
    if not watch.dumps:
        out["violations"].append(common.violation(
            "repair_completes", f"removal of {departing} (orphans {orphaned}) was injected at "
            f"but no repair outcome was reported within {RUN_T} virtual s" + crash, event=1,
            **feats))
        return out
    dead_agents = {a: e for a, e, _ in sim.fatal.errors}
    gone = []
    for ei, rec in enumerate(watch.events):
        leaving = rec["leaving"]
        gone += leaving
        f = dict(feats, event=ei + 1, n_departing=len(leaving))
        nxt = watch.events[ei + 1] if ei + 1 < len(watch.events) else None
        if rec["dumps_before"] != ei or (nxt is not None and nxt["dumps_before"] <= ei):
            # this repair had not been reported when the next event was injected (or the
            # previous one when this event was): overlapping repairs are outside what the
            # property describes, and the reports can no longer be attributed to an event
            out["stats"]["event_overlapping_previous_repair"] += 1
            break
        if ei >= len(watch.dumps):
            out["violations"].append(common.violation(
                "repair_completes", f"event {ei + 1}: removal of {leaving} was injected at virtual "
                f"t={rec['t']:.1f} but no repair outcome was reported by t={sim.now:.1f}" + crash,
                **f))
            break
        status, live, directory_then, t, directory_later = watch.dumps[ei]
        if ei + 1 == len(watch.events) and not directory_later:
            directory_later = watch.final_directory or directory_then
        # hosts just before the event: the deployment for the first event, what the previous
        # repair left (agents' own view) afterwards
        if ei == 0:
            before = dict(owner)
        else:
            prev_live = watch.dumps[ei - 1][1]
            before = {c: next((a for a, cs in prev_live.items() if c in cs), None)
                      for c in watch.originals}
        orph = [c for c in watch.originals if before.get(c) in leaving]
        f["orphans"] = len(orph) > 0
        if ei > 0:
            bare = [c for c in orph if not (set(rec["replicas"].get(c, [])) - set(gone))]
            if bare:
                # the property speaks about a run *with replication level k*: a later event is
                # audited only if every computation it orphans still has a replica on a
                # surviving agent.  (Replicas lost with earlier departures, or never re-created
                # for a computation re-hosted by the previous repair, are counted as probes:
                # pyDcop re-replicates on a best-effort basis and the statement does not cover it.)
                out["stats"]["later_event_without_replication_level"] += 1
                out["stats"]["rehosted_orphan_had_no_new_replica"] += any(
                    before[c] != owner[c] for c in bare)
                break
        problems, kinds = [], set()
        for c in watch.originals:
            if before.get(c) is None:
                continue                      # already lost by an earlier event (reported there)
            hosts = [a for a, cs in live.items() if c in cs and a not in gone]
            if len(hosts) != 1:
                problems.append(f"{c} is hosted by {hosts} (live agents' computations)")
                kinds.add("live_hosts_not_1")
                continue
            # the directory may lag behind the report (registrations travel as messages): it is
            # wrong only if it disagrees both when the outcome is reported and one virtual
            # second later
            seen = {directory_then.get(c), (directory_later or directory_then).get(c)}
            if hosts[0] not in seen:
                if seen == {None}:
                    dead = hosts[0] in dead_agents
                    problems.append(f"{c} runs on {hosts[0]} but the directory has no host for it"
                                    + (f" ({hosts[0]}'s thread died: {dead_agents[hosts[0]]})"
                                       if dead else ""))
                    kinds.add("directory_missing_host_thread_died" if dead else "directory_missing")
                else:
                    problems.append(f"{c} runs on {hosts[0]} but the directory says "
                                    f"{sorted(map(str, seen))}")
                    kinds.add("directory_other")
            if c in orph and hosts[0] not in rec["replicas"].get(c, []):
                problems.append(f"{c} was re-hosted on {hosts[0]}, which held no replica "
                                f"(replicas before the event: {rec['replicas'].get(c)})")
                kinds.add("rehost_without_replica")
            if c not in orph and hosts[0] != before[c]:
                problems.append(f"{c} moved from {before[c]} to {hosts[0]} although its host stayed")
                kinds.add("moved_without_reason")
        if problems:
            f["problems"] = "+".join(sorted(kinds))
            # an orphan none of whose replica holders survives the event (e.g. an isolated
            # variable, which dist_ucs_hostingcosts cannot replicate at all)
            f["orphan_without_surviving_replica"] = any(
                not (set(rec["replicas"].get(c, [])) - set(gone)) for c in orph)
            # ... and whether such an orphan had been re-hosted by a previous repair (its
            # replicas were to be re-established by the new host)
            f["lost_replicas_after_rehosting"] = any(
                not (set(rec["replicas"].get(c, [])) - set(gone)) and before[c] != owner[c]
                for c in orph)
        out["stats"]["repairs_audited"] += 1
        out["stats"][f"repairs_audited_event{ei + 1}"] += 1
        out["stats"]["repairs_with_orphans"] += 1 if orph else 0
        out["stats"]["status_" + str(status)] += 1
        head = f"event {ei + 1}: departing {leaving}, orphans {orph}: "
        if problems and status == "OK":
            out["violations"].append(common.violation(
                "ok_implies_hosted_once", head + "repair reported OK but " + "; ".join(problems[:4]),
                **f))
        elif problems:
            out["violations"].append(common.violation(
                "hosted_exactly_once", head + f"repair reported {status}: " + "; ".join(problems[:4]),
                **f))
        elif status != "OK":
            out["violations"].append(common.violation(
                "ok_iff_hosted_once", head + f"everything is hosted exactly once but the repair was "
                f"reported {status}", **f))
        if problems:
            break                              # later events start from a broken state
    out["nontrivial"] = bool(orphaned) and sim.stats["threads"] >= 4
    return out


RUN_TIMEOUT_S = 300
BUDGET = {"quick": (672, 90), "thorough": (12600, 1500)}
REAL = c22.REAL[:10] + ["ResilientAgent.setup_repair/repair_run/_on_repair_computation_finished",
                        "AgentsMgt._orchestrator_scenario_event/_agents_removal/_on_repair_done",
                        "pydcop.reparation (removal info, repair constraints)", "UCSReplication",
                        "pydcop.algorithms.mgm2 (repair DCOP)", "pydcop.algorithms.{dsa,mgm,maxsum}"]
STUB = c22.STUB + ["open() in AgentsMgt (events.yaml / evtdist_N.yaml go to an in-memory table)"]
ASSUMPTIONS = ["thread mode; departures are the announced AgentRemovedMessage events pyDcop models",
               "ample capacity (slack 1000), at most k agents leave in the single event",
               "the directory is read when the orchestrator starts stopping agents (after the "
               "repair), the agents' hosted computations when the repair outcome is reported",
               "run index i enumerates (instance i//21, departing-subset rank i%21): every subset "
               "of 1..k agents of every generated instance is executed once per batch"]
LEVEL_TEXT = ("Per generated instance every departing subset of 1..k agents is enumerated (fault "
              "enumeration) and executed under a tape-drawn thread schedule of the complete "
              "replicate -> remove -> repair pipeline; the repair outcome is audited against the "
              "agents' actual hosted computations, the directory and the pre-removal replica map, "
              "and must be reported within the virtual cap.")
LEVEL_NOTE = ("Exhaustive in the departing set per instance, sampled in instances and schedules. "
              "Trusted: threadsim scheduler/clock.")
TECHNIQUE = "deterministic simulation: departing-subset enumeration x seeded schedules of the real runtime"
DESIGN_REF = "DESIGN.md §7 C27"
