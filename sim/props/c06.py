"""C06 — best-response helpers return exactly the optimal values and cost (partial:
DSA-family move oracle + in-vivo monitors on every helper call made during simulated runs)."""
import collections

from .. import gen
from ..compsim import Observer
from ..monitors import Monitors
from ..truth import Truth
from . import common

ID = "C06"
ENGINE = "A"
RULE = ("random DCOP (n<=6, dom<=3, arity<=3, variable costs, cost classes small/signed/float/"
        "big(>2^31)/inf) x dsa(A,B,C)|dsatuto|adsa (move oracle) and mgm|dpop (helper monitors) x "
        "tape-drawn schedule; adsa additionally with message loss/duplication and timer jitter; "
        "non-trivial = >=2 parties, >=1 choice point and at least one DSA move checked or one "
        "helper call compared with brute force; distinct = SHA-256 of decision-and-event log")

DSA_FAMILY = ("dsa", "dsatuto", "adsa")


def generate(rng, tier):
    algo = rng.choice(["dsa", "dsa", "dsatuto", "adsa", "mgm", "dpop"])
    classes = ("small", "signed", "float", "big", "inf") if algo in ("dpop", "mgm", "dsa") \
        else ("small", "signed", "float", "big")
    case = gen.gen_dcop(
        rng, n_range=(1, 6), dom_range=(1, 3),
        shapes=("random", "random", "tree", "chain", "star", "clique", "components"),
        arity3_p=0.2, unary_p=0.2, varcost_p=rng.choice([0.0, 0.5, 0.9]),
        cost_classes=classes, initial_p=0.2, max_space=1500)
    params = {}
    if algo == "dsa":
        params = {"variant": rng.choice(["A", "B", "C"]),
                  "probability": rng.choice([0.3, 0.7, 1.0]), "stop_cycle": rng.randint(2, 12)}
    elif algo == "adsa":
        params = {"variant": rng.choice(["A", "B", "C"]),
                  "probability": rng.choice([0.3, 0.7, 1.0]), "period": rng.choice([0.1, 0.5])}
    elif algo == "mgm":
        params = {"stop_cycle": rng.randint(2, 8)}
    case["algo"] = algo
    case["params"] = params
    return case


class Moves(Observer):
    """Reconstructs, from delivered messages only, the neighbour values each evaluation used."""

    def __init__(self, truth, algo):
        self.truth = truth
        self.algo = algo
        self.queues = collections.defaultdict(lambda: collections.defaultdict(collections.deque))
        self.last = collections.defaultdict(dict)
        self.changed = {}          # name -> new value, within the current event
        self.checked = 0
        self.bad = None
        self.initialised = set()
        self.nbs = {n: sorted({x for con in truth.cons_of[n] for x in con[1]} - {n})
                    for n in truth.names}

    def on_value(self, sim, name, val, cost):
        self.changed[name] = val

    def on_deliver(self, sim, src, dst, msg, reinjected):
        c = sim.comps[dst]
        if dst not in sim.started or c.is_paused:
            return                                  # buffered, will be re-injected
        if getattr(msg, "type", None) in ("dsa_value", "adsa_value"):
            self.queues[dst][src].append(msg.value)
            self.last[dst][src] = msg.value

    def after_event(self, sim, event):
        changed, self.changed = self.changed, {}
        if self.bad:
            return
        for name in list(changed):
            if name not in self.initialised:      # initial (random) selection
                self.initialised.add(name)
                del changed[name]
        target = event[-1] if event[0] != "tick" else event[1][0]
        used = None
        if self.algo in ("dsa", "dsatuto") and event[0] in ("deliver", "reinject"):
            qs = self.queues[target]
            nbs = self.nbs[target]
            if nbs and all(qs[n] for n in nbs):
                used = {n: qs[n].popleft() for n in nbs}
        elif self.algo == "adsa" and event[0] == "tick":
            nbs = self.nbs[target]
            if nbs and all(n in self.last[target] for n in nbs):
                used = dict(self.last[target])
        for name, val in changed.items():
            if name != target:
                self.bad = f"{name} changed value during an event of {target}"
                return
            if not self.nbs[name]:
                continue
            if used is None:
                self.bad = (f"{name} moved to {val!r} at event {sim.events} without a full set "
                            f"of neighbour values (has {dict(self.last[name])})")
                return
            asg = dict(used)
            asg[name] = val
            best_vals, best_cost = self.truth.best_response(name, asg)
            self.checked += 1
            if val not in best_vals:
                self.bad = (f"{name} moved to {val!r} given neighbour values {used}; local cost "
                            f"(constraints + own cost) {self.truth.local_cost(name, asg)}, "
                            f"optimal values {best_vals} with cost {best_cost}")
                return


def execute(case, tape):
    out = common.outcome()
    truth = Truth(case)
    algo = case["algo"]
    mon = Monitors().install()
    try:
        moves = Moves(truth, algo)
        kw = {}
        if algo == "adsa":
            kw = dict(loss=tape.pick([0.0, 0.0, 0.1]), dup=tape.pick([0.0, 0.1]), max_time=6.0)
        sim = common.engine_a(case, tape, observers=[moves] if algo in DSA_FAMILY else [],
                              max_events=6000 if algo != "dsatuto" else 1500, **kw)
        stop = None
        if algo == "dsatuto":
            conn = [c for c in sim.comps.values() if c.neighbors]
            stop = (lambda s: moves.bad is not None or (len(s.started) == len(s.names) and all(
                c.cycle_count >= 8 for c in conn))) if conn else None
        elif algo in DSA_FAMILY:
            stop = lambda s: moves.bad is not None
        status = sim.run(stop=stop)
    finally:
        mon.uninstall()
    common.finish_stats(out, sim, tape)
    varcosts = any(v.get("cost") for v in case["variables"])
    feats = dict(algo=algo, objective=case["objective"], cost_class=case["cost_class"],
                 varcosts=varcosts)
    out["subspace"] = f"{algo}/{case['objective']}/{case['cost_class']}/vc={varcosts}"
    if status == "error":
        out["sut_error"] = sim.error[1]
        out["stats"]["inconclusive_sut_error"] += 1
    for helper, detail in mon.violations[:1]:
        out["violations"].append(common.violation("helper_" + helper, detail, **feats))
    if moves.bad:
        out["violations"].append(common.violation("dsa_moves_to_best_response", moves.bad, **feats))
    for k, v in mon.calls.items():
        out["stats"]["calls_" + k] += v
    out["stats"]["helper_inputs_beyond_2^31"] += mon.huge
    out["stats"]["helper_inputs_infinite"] += mon.infinite
    out["stats"]["dsa_moves_checked"] += moves.checked
    out["nontrivial"] = (tape.choice_points >= 1 and
                         (moves.checked > 0 or sum(mon.calls.values()) > 0))
    return out


BUDGET = {"quick": (90000, 75), "thorough": (1800000, 1500)}
REAL = ["pydcop.dcop.relations (find_optimal, find_arg_optimal, optimal_cost_value, projection)",
        "pydcop.algorithms.dsa", "pydcop.algorithms.dsatuto", "pydcop.algorithms.adsa",
        "pydcop.algorithms.mgm", "pydcop.algorithms.dpop", "pydcop.infrastructure.computations"]
STUB = ["Agent (periodic actions re-implemented by the compsim timer stub)", "Messaging",
        "transport", "discovery"]
ASSUMPTIONS = ["partial claim: only helper calls made during simulated executions and the DSA "
               "move clause are decided; helper behaviour on inputs no execution produces is "
               "input enumeration on a pure function and outside this technique",
               "the monitors evaluate pyDcop relation objects (their __call__) to build the "
               "brute-force reference of a helper call",
               "the DSA move oracle uses ground truth from the case tables and neighbour values "
               "reconstructed from delivered messages only"]
LEVEL = "exploration"
LEVEL_TEXT = ("Seeded search over DCOPs (including costs beyond 2^31 and infinite), DSA-family "
              "parameters and schedules (loss/duplication/timer jitter for A-DSA); every value "
              "change is checked against the brute-force best-response set, and every helper "
              "call made by dsa/dsatuto/adsa/mgm/dpop is re-computed by brute force.")
LEVEL_NOTE = ("Partial: decides the clauses with an execution in them. Trusted: compsim channel "
              "and timer model, ground truth, relation __call__ for the monitors.")
TECHNIQUE = "deterministic simulation: seeded schedule search + move oracle + in-vivo monitors"
DESIGN_REF = "DESIGN.md §7 C06"
