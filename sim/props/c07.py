"""C07 — cycle-bounded local search finishes after stop_cycle cycles."""
from . import common, localsearch as ls

ID = "C07"
ENGINE = "A"
RULE = ("random DCOP (n<=7, isolated variables, n-ary constraints) x mgm|mgm2|dsa(A,B,C) with "
        "stop_cycle 1..10 x tape-drawn start order, FIFO delivery order and algorithm randomness; "
        "the run is driven to exact quiescence; non-trivial = >=2 parties exchanged messages, "
        ">=1 choice point, at least one computation with neighbours; distinct = SHA-256 of "
        "decision-and-event log")


def generate(rng, tier):
    return ls.gen_localsearch(rng, tier, ("mgm", "mgm2", "dsa", "dsa"), stop_range=(1, 10))


def execute(case, tape):
    out = common.outcome()
    truth, hist, sim, status = ls.run(case, tape)
    k = case["params"]["stop_cycle"]
    feats = dict(algo=case["algo"], mode=sim.config["mode"])
    if case["algo"] == "dsa":
        feats["variant"] = case["params"]["variant"]
    out["subspace"] = f"{case['algo']}/k={k}"
    common.finish_stats(out, sim, tape)
    if status == "error":
        out["sut_error"] = sim.error[1]
        out["violations"].append(common.violation(
            "no_exception", f"{sim.error[0]}: {sim.error[1]}\n{sim.error[2][-1500:]}",
            exc=sim.error[1].split("(")[0], **feats))
        return out
    if status != "quiescent":
        out["violations"].append(common.violation(
            "terminates", f"status={status} after {sim.events} events", **feats))
        return out
    for n in truth.names:
        cnt = sim.finished[n]
        if cnt == 0:
            waiting = [(s, d, t) for s, d, t in sim.pending() if d == n]
            out["violations"].append(common.violation(
                "all_finished", f"quiescent but {n} never finished (cycle_count="
                f"{sim.comps[n].cycle_count}, stop_cycle={k}); finished: {dict(sim.finished)}; "
                f"pending for it: {waiting}", **feats))
            return out
        if cnt > 1:
            out["violations"].append(common.violation(
                "finished_once", f"{n} reported finished {cnt} times", **feats))
            return out
        if ls.has_neighbors(truth, n):
            if hist.finish_cycle[n] != k:
                out["violations"].append(common.violation(
                    "finished_at_stop_cycle", f"{n} finished at cycle {hist.finish_cycle[n]}, "
                    f"stop_cycle={k}", **feats))
                return out
        elif n not in hist.finish_in_start:
            out["violations"].append(common.violation(
                "isolated_finishes_at_start", f"{n} has no neighbour but did not finish "
                f"during start()", **feats))
            return out
    out["stats"]["oracle_evaluated"] += 1
    out["nontrivial"] = common.basic_nontrivial(sim, tape)
    return out


BUDGET = {"quick": (120000, 75), "thorough": (2400000, 1500)}
REAL = ["pydcop.algorithms.mgm", "pydcop.algorithms.mgm2", "pydcop.algorithms.dsa",
        "pydcop.dcop.relations", "pydcop.computations_graph.constraints_hypergraph",
        "pydcop.infrastructure.computations"]
STUB = ["Agent", "Messaging", "transport", "discovery (replaced by compsim FIFO channel model)"]
ASSUMPTIONS = ["channels reliable and FIFO per (sender, destination)",
               "quiescence (no enabled event) is exact in this engine, so 'left waiting for a "
               "message that will never come' is decided, not guessed"]
LEVEL = "exploration"
LEVEL_TEXT = ("Seeded search over DCOPs, stop_cycle values, start orders, FIFO deliveries and "
              "algorithm randomness; each run is driven to exact quiescence and every "
              "computation must have finished exactly once at cycle k (or inside start() "
              "when isolated), with no exception from any handler.")
LEVEL_NOTE = "Trusted: compsim FIFO channel model and its exact quiescence detection, n<=7."
TECHNIQUE = "deterministic simulation: seeded schedule search + quiescence/deadlock oracle"
DESIGN_REF = "DESIGN.md §7 C07"
