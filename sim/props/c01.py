"""C01 — DPOP returns an optimal assignment on every DCOP and schedule."""
from .. import gen
from ..truth import Truth, same_cost
from . import common

ID = "C01"
ENGINE = "A"
RULE = ("random DCOP (n<=7, dom<=4, arity<=3, unary, variable costs, components) x tape-drawn "
        "start order and per-channel-FIFO delivery order; non-trivial = >=2 computations "
        "exchanged a message, >=1 choice point with >=2 alternatives, optimum oracle evaluated; "
        "distinct = SHA-256 of decision-and-event log")


def generate(rng, tier):
    big = tier == "thorough"
    case = gen.gen_dcop(
        rng, n_range=(1, 7 if big else 6), dom_range=(1, 4 if big else 3),
        shapes=("random", "random", "tree", "chain", "star", "clique", "components", "forest"),
        arity3_p=0.25, unary_p=0.2, varcost_p=0.3,
        cost_classes=("small", "small", "signed", "signed", "float", "big"),
        initial_p=0.2, max_space=2500)
    case["algo"] = "dpop"
    case["params"] = {}
    return case


def execute(case, tape):
    out = common.outcome()
    truth = Truth(case)
    sim = common.engine_a(case, tape, max_events=50 * (2 * len(truth.names) + 10))
    out["subspace"] = f"{case['objective']}/{case['cost_class']}/{case['shape']}"
    feats = dict(algo="dpop", objective=case["objective"], cost_class=case["cost_class"],
                 mode=sim.config["mode"], wire=sim.config["wire"])
    status = sim.run()
    common.finish_stats(out, sim, tape)
    if status == "error":
        out["sut_error"] = sim.error[1]
        out["violations"].append(common.violation(
            "no_exception", f"{sim.error[0]}: {sim.error[1]}\n{sim.error[2][-1500:]}",
            exc=sim.error[1].split("(")[0], **feats))
        return out
    if status != "quiescent":
        out["violations"].append(common.violation("terminates", f"status={status}", **feats))
        return out
    unfinished = [n for n in sim.names if sim.finished[n] < 1]
    if unfinished:
        out["violations"].append(common.violation(
            "all_finished", f"not finished at quiescence: {unfinished}", **feats))
        return out
    asg = common.assignment(sim)
    bad = [n for n in truth.names if asg.get(n) not in truth.dom[n]]
    if bad:
        out["violations"].append(common.violation(
            "complete_in_domain", f"values not in domain: { {n: asg.get(n) for n in bad} }",
            **feats))
        return out
    best, count, arg = truth.optimum()
    got = truth.cost(asg)
    out["stats"]["oracle_evaluated"] += 1
    if not same_cost(got, best):
        out["violations"].append(common.violation(
            "optimal", f"assignment {asg} costs {got}, optimum is {best} (e.g. {arg})", **feats))
    out["nontrivial"] = common.basic_nontrivial(sim, tape)
    return out

BUDGET = {"quick": (120000, 75), "thorough": (3000000, 1500)}
REAL = ["pydcop.algorithms.dpop", "pydcop.dcop.relations", "pydcop.dcop.objects",
        "pydcop.computations_graph.pseudotree", "pydcop.infrastructure.computations",
        "pydcop.algorithms (AlgorithmDef, ComputationDef, build_computation)"]
STUB = ["Agent", "Messaging", "transport", "discovery (replaced by compsim FIFO channel model)"]
ASSUMPTIONS = ["channels are reliable and FIFO per (sender, destination) as in every shipped transport",
               "ground-truth optimum by brute force over <= 2500 assignments",
               "every generated cost is an int or a multiple of 0.25, so sums are exact in float64 and costs are compared exactly"]
LEVEL = "exploration"
LEVEL_TEXT = ("Seeded search over DCOP instances x start orders x per-channel-FIFO delivery "
              "orders of the real DpopAlgo computations in a discrete-event simulator; the "
              "oracle is a brute-force optimum computed outside pyDcop. Sampling, not proof.")
LEVEL_NOTE = ("Trusted: the FIFO channel model of compsim (stands for Agent/Messaging), the "
              "brute-force ground truth, instance sizes n<=7, domain<=4.")
TECHNIQUE = "deterministic simulation: seeded schedule search + brute-force optimum oracle"
DESIGN_REF = "DESIGN.md §7 C01"
