"""C25 — replica placement terminates and keeps replicas safe."""
from .. import build
from . import common, orch, resilient, c22

ID = "C25"
ENGINE = "B"
CAP = 300.0
RULE = ("3..6 OrchestratedAgents (thread mode) hosting 1..2 dsa/mgm/maxsum computations each, "
        "capacities drawn tight around the hosted footprints, symmetric route tables, hosting "
        "costs, k in 1..3; driver = run_local_thread_dcop(replication='dist_ucs_hostingcosts'), "
        "deploy_computations, start_replication(k), wait_ready under the baton scheduler with "
        "optional line pre-emption/stalls; non-trivial = >=3 agent threads, >=1 replica accepted "
        "or refused path explored, all oracles evaluated; distinct = SHA-256 of event log")


def generate(rng, tier):
    return resilient.gen_resilient(rng, tier)


def execute(case, tape):
    out = common.outcome()
    cfg = orch.sim_config(tape)
    k = case["k"]
    feats = dict(algo=case["algo"], k=k, preempt=cfg["preempt_p"] > 0)
    out["subspace"] = f"{case['algo']}/k={k}/agents={len(case['agents'])}"
    built = build.Built(case)
    result = {}
    with orch.runtime(tape, cfg, max_time=CAP, max_steps=150000) as sim:
        audit = resilient.ReplicationAudit(sim, k)
        audit.install()
        try:
            graph, mapping, foot = resilient.prepare(case, built)
            case = dict(case, distribution=mapping)
            orchestrator, _, _, _ = orch.build_orchestrated(
                case, built, replication="dist_ucs_hostingcosts")
            orchestrator.deploy_computations()
            orchestrator.start_replication(k)
            result["ready"] = orchestrator.wait_ready()
            result["t"] = sim.now
            result["directory"] = {c: list(orchestrator.mgt.discovery.replica_agents(c))
                                   for c in (n.name for n in graph.nodes)}
            result["hosted"] = {name: dict(a.replication_comp.hosted_replicas)
                                for name, a in sim.capture.agents.items()
                                if getattr(a, "replication_comp", None) is not None}
        except orch.threadsim.SimAbort as e:
            result["abort"] = str(e)
        except Exception as e:
            import traceback
            result["driver_error"] = repr(e) + "\n" + traceback.format_exc()[-1500:]
        finally:
            audit.uninstall()
    orch.stats_from(sim, out)
    out["stats"]["acceptances"] += audit.acceptances
    out["stats"]["acceptances_at_capacity_edge"] += audit.at_edge
    if sim.fatal.errors:
        a, e, tb = sim.fatal.errors[0]
        out["sut_error"] = e
        out["violations"].append(common.violation(
            "no_agent_crash", f"agent thread {a} died: {e}\n{tb}", exc=e.split("(")[0], **feats))
        return out
    if "driver_error" in result:
        out["sut_error"] = result["driver_error"]
        out["violations"].append(common.violation(
            "no_exception", result["driver_error"], exc=result["driver_error"].split("(")[0],
            **feats))
        return out
    if "abort" in result:
        waiting = [a for a in mapping if a not in audit.reported]
        out["violations"].append(common.violation(
            "replication_terminates", f"wait_ready() did not return: {result['abort']} at "
            f"virtual t={sim.now:.2f}; agents that never reported replication done: {waiting}",
            reason=result["abort"], **feats))
        return out
    for v in audit.violations[:1]:
        out["violations"].append(common.violation("acceptance_rule", v, **feats))
    owner = {c: a for a, cs in mapping.items() for c in cs}
    missing = [a for a in mapping if a not in audit.reported]
    if missing:
        out["violations"].append(common.violation(
            "every_agent_reports", f"wait_ready returned but {missing} never reported "
            f"replication done", **feats))
    for agent, hosts_by_comp in audit.reported.items():
        for comp, hosts in hosts_by_comp.items():
            bad = None
            if len(set(hosts)) != len(hosts):
                bad = "duplicate hosts"
            elif owner.get(comp) in hosts:
                bad = "replica on the owner"
            elif len(hosts) > k:
                bad = f"more than k={k} replicas"
            elif any(h not in result["directory"].get(comp, []) for h in hosts):
                bad = f"not recorded in discovery (directory has {result['directory'].get(comp)})"
            elif any(comp not in result["hosted"].get(h, {}) for h in hosts):
                bad = f"reported host does not hold the replica ({ {h: list(result['hosted'].get(h, {})) for h in hosts} })"
            if bad:
                out["violations"].append(common.violation(
                    "replica_hosts_safe", f"{agent} reported replicas of {comp} on {hosts}: {bad}",
                    **feats))
                break
    out["stats"]["oracle_evaluated"] += 1
    out["nontrivial"] = sim.stats["threads"] >= 4 and tape.choice_points >= 1 and \
        (audit.acceptances > 0 or len(audit.reported) > 0)
    return out


RUN_TIMEOUT_S = 180
BUDGET = {"quick": (2000, 75), "thorough": (40000, 1200)}
REAL = c22.REAL[:10] + ["ResilientAgent", "pydcop.replication.dist_ucs_hostingcosts.UCSReplication",
                        "pydcop.replication.path_utils", "pydcop.algorithms.{dsa,mgm,maxsum} "
                        "(footprints only; computations are deployed but not run)"]
STUB = c22.STUB
ASSUMPTIONS = ["thread mode: all agents share one interpreter (and its class-level caches)",
               "route tables symmetric (the only ones the YAML format can express)",
               "capacity of each agent = footprint of what it hosts + a slack in {0,1,2,3,5,8}",
               "acceptance rule recomputed by the harness from the agent's state just before "
               "each UCSReplication._accept_replica call"]
LEVEL = "exploration"
LEVEL_TEXT = ("Seeded search over deployments, capacities, k and thread schedules of the full "
              "replication protocol; bounded liveness (wait_ready returns before the virtual "
              "cap), safety of the reported hosts, and an audit of every acceptance against the "
              "capacity rule of the property.")
LEVEL_NOTE = "Trusted: threadsim scheduler/clock; footprints as reported by the algorithms' computation_memory."
TECHNIQUE = "deterministic simulation: baton-scheduled real threads + acceptance audit"
DESIGN_REF = "DESIGN.md §7 C25"
