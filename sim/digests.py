"""python -m sim.digests PROP TIER START COUNT [REPEAT] -> JSON list of run digests.
Used by the determinism self-test; REPEAT=2 runs every seed twice in the same process and
fails (exit 3) on any in-process divergence."""
import importlib
import json
import os
import sys

from .execute import make_case, run_one
from .tape import Tape, run_seed


def main(argv):
    prop, tier, start, count = argv[0], argv[1], int(argv[2]), int(argv[3])
    repeat = int(argv[4]) if len(argv) > 4 else 1
    verif_seed = int(os.environ.get("VERIF_SEED", "0") or 0)
    mod = importlib.import_module("sim.props." + prop.lower())
    out = []
    bad = []
    for i in range(start, start + count):
        if i % 4 != int(os.environ.get("PYTHONHASHSEED", "0")) % 4:
            continue
        seed = run_seed(verif_seed, prop, tier, i)
        ds = []
        for _ in range(repeat):
            case = make_case(mod, seed, tier, i, verif_seed)
            tape = Tape(seed)
            res = run_one(mod, case, tape, getattr(mod, "RUN_TIMEOUT_S", 30))
            ds.append(tape.digest()[:24] + ":" + str(len(res["violations"])))
        if len(set(ds)) != 1:
            bad.append((i, ds))
        out.append((i, ds[0]))
    sys.stdout.write(json.dumps({"digests": out, "diverged": bad}))
    return 3 if bad else 0


if __name__ == "__main__":
    sys.exit(main(sys.argv[1:]))
