"""Case generation.  A case is explicit JSON-able data; nothing here imports pydcop.

case = {
  "objective": "min" | "max",
  "domains":   {dname: [values...]},
  "variables": [{"name", "domain", "initial": value|None,
                 "cost": None | {"kind": "dict"|"func", "costs": [per domain index]}}],
  "constraints": [{"name", "scope": [var names], "table": [row-major over scope],
                   "render": "matrix"|"expr"}],
  ... plus per-property keys (algo, params, agents, ops, ...)
}
"""
import itertools

INF = float("inf")

COST_CLASSES = ("small", "signed", "float", "big", "inf")


def draw_cost(rng, cls, objective="min"):
    if cls == "small":
        return rng.randrange(0, 10)
    if cls == "signed":
        return rng.randrange(-9, 10)
    if cls == "float":
        return rng.randrange(-40, 41) / 4.0
    if cls == "big":
        # magnitudes beyond 2**31 with *small* differences between entries (near-ties at huge
        # magnitude), exactly representable as float64 even when a dozen of them are summed
        base = rng.choice([1 << 31, 1 << 33, 10 ** 10]) + rng.randrange(0, 10)
        return base if rng.random() < 0.8 else -base
    if cls == "inf":
        if rng.random() < 0.25:
            return INF if objective == "min" else -INF
        return rng.randrange(0, 10)
    if cls == "offset":
        return 100 + rng.randrange(0, 11)
    if cls == "hard":
        # pyDcop's usual *finite* hard-constraint value (the `infinity` handed to the runtime)
        return 10000 if rng.random() < 0.25 else rng.randrange(0, 10)
    raise ValueError(cls)


def edges_for_shape(rng, names, shape, p=0.5):
    """Binary edges over `names` for the requested shape (list of pairs)."""
    n = len(names)
    idx = list(range(n))
    edges = set()
    if n < 2:
        return []
    if shape == "chain":
        order = idx[:]
        rng.shuffle(order)
        edges = {tuple(sorted((order[i], order[i + 1]))) for i in range(n - 1)}
    elif shape == "star":
        c = rng.randrange(n)
        edges = {tuple(sorted((c, i))) for i in idx if i != c}
    elif shape == "clique":
        edges = set(itertools.combinations(idx, 2))
    elif shape == "tree":
        order = idx[:]
        rng.shuffle(order)
        for i in range(1, n):
            j = order[rng.randrange(i)]
            edges.add(tuple(sorted((order[i], j))))
    elif shape == "forest":
        order = idx[:]
        rng.shuffle(order)
        for i in range(1, n):
            if rng.random() < 0.3:
                continue
            j = order[rng.randrange(i)]
            edges.add(tuple(sorted((order[i], j))))
    elif shape == "random":
        for a, b in itertools.combinations(idx, 2):
            if rng.random() < p:
                edges.add((a, b))
    elif shape == "components":
        # two or three groups, random inside each
        k = rng.randrange(2, 4)
        grp = [rng.randrange(k) for _ in idx]
        for a, b in itertools.combinations(idx, 2):
            if grp[a] == grp[b] and rng.random() < 0.7:
                edges.add((a, b))
    elif shape == "connected":
        order = idx[:]
        rng.shuffle(order)
        for i in range(1, n):
            j = order[rng.randrange(i)]
            edges.add(tuple(sorted((order[i], j))))
        for a, b in itertools.combinations(idx, 2):
            if rng.random() < p * 0.5:
                edges.add((a, b))
    else:
        raise ValueError(shape)
    return sorted((names[a], names[b]) for a, b in edges)


def gen_dcop(rng, n_range=(1, 6), dom_range=(1, 3), shapes=("random",), arity3_p=0.0,
             unary_p=0.0, varcost_p=0.0, cost_classes=("small",), objective=None,
             str_domain_p=0.15, initial_p=0.0, renders=("matrix", "expr"),
             edge_p=None, max_space=4096, names=None, parallel_p=0.12, extra_unary=0,
             mixed_domain_p=0.0):
    """Generate the problem part of a case."""
    objective = objective or rng.choice(["min", "max"])
    cls = rng.choice(list(cost_classes))
    n = rng.randint(*n_range)
    if names is None:
        names = [f"v{i}" for i in range(n)]
    else:
        names = list(names)[:n]
    domains = {}
    variables = []
    space = 1
    for name in names:
        size = rng.randint(*dom_range)
        while space * size > max_space and size > 1:
            size -= 1
        space *= size
        if size >= 2 and rng.random() < mixed_domain_p:
            # numbers and strings in one domain (legal: yaml `values: [0, 1, auto]`)
            k = rng.randint(1, size - 1)
            vals = list(range(k)) + [chr(ord("a") + i) for i in range(size - k)]
        elif rng.random() < str_domain_p:
            vals = [chr(ord("a") + i) for i in range(size)]
        else:
            # not necessarily 0-based: exposes index/value confusions
            start = rng.choice([0, 0, 1, 5])
            vals = list(range(start, start + size))
        dname = "d_" + name
        domains[dname] = vals
        cost = None
        if rng.random() < varcost_p:
            cost = {"kind": rng.choice(["dict", "func"]),
                    "costs": [draw_cost(rng, cls, objective) for _ in vals]}
        initial = rng.choice(vals) if rng.random() < initial_p else None
        variables.append({"name": name, "domain": dname, "initial": initial, "cost": cost})
    dsize = {v["name"]: len(domains[v["domain"]]) for v in variables}

    shape = rng.choice(list(shapes))
    p = edge_p if edge_p is not None else rng.choice([0.3, 0.5, 0.8])
    scopes = [list(e) for e in edges_for_shape(rng, names, shape, p)]
    # n-ary constraints: merge a random third variable in some scopes / add some
    if arity3_p > 0 and n >= 3:
        for s in scopes:
            if rng.random() < arity3_p:
                others = [x for x in names if x not in s]
                if others:
                    s.append(rng.choice(others))
    for name in names:
        if rng.random() < unary_p:
            scopes.append([name])
    # several constraints over the same scope are legal: duplicate some edges
    if scopes and rng.random() < parallel_p:
        for s_ in list(scopes):
            if len(s_) >= 2 and rng.random() < 0.4:
                scopes.append(list(s_))
    for _ in range(extra_unary):
        scopes.append([rng.choice(names)])
    constraints = []
    for i, scope in enumerate(scopes):
        if rng.random() < 0.5:
            scope = list(scope)
            rng.shuffle(scope)
        size = 1
        for x in scope:
            size *= dsize[x]
        table = [draw_cost(rng, cls, objective) for _ in range(size)]
        constraints.append({"name": f"c{i}", "scope": list(scope), "table": table,
                            "render": rng.choice(list(renders))})
    return {"objective": objective, "domains": domains, "variables": variables,
            "constraints": constraints, "shape": shape, "cost_class": cls}


def tree_factor_scopes(rng, names, arity3_p=0.3):
    """Scopes whose factor graph (variables + factors) is a forest."""
    n = len(names)
    order = list(names)
    rng.shuffle(order)
    scopes = []
    placed = [order[0]] if order else []
    i = 1
    while i < n:
        if rng.random() < 0.12:            # new component
            placed.append(order[i])
            i += 1
            continue
        anchor = rng.choice(placed)
        if i + 1 < n and rng.random() < arity3_p:
            scopes.append([anchor, order[i], order[i + 1]])
            placed += [order[i], order[i + 1]]
            i += 2
        else:
            scopes.append([anchor, order[i]])
            placed.append(order[i])
            i += 1
    return scopes
