"""case JSON -> pydcop objects.  Importing this module imports pydcop from $PYDCOP_SRC
(default /repo)."""
import collections
import collections.abc
import importlib
import logging
import os
import sys

_SRC = os.environ.get("PYDCOP_SRC", "/repo")
if sys.path[0] != _SRC:
    sys.path.insert(0, _SRC)

logging.disable(logging.CRITICAL)

from pydcop.dcop.objects import (Domain, Variable, VariableWithCostDict,   # noqa: E402
                                 VariableWithCostFunc, AgentDef)
from pydcop.dcop.relations import NAryMatrixRelation, constraint_from_str  # noqa: E402
from pydcop.dcop.dcop import DCOP                                          # noqa: E402
from pydcop.utils.expressionfunction import ExpressionFunction             # noqa: E402
from pydcop.algorithms import AlgorithmDef, ComputationDef, load_algorithm_module  # noqa: E402


def pydcop_root():
    import pydcop
    return os.path.dirname(os.path.dirname(os.path.abspath(pydcop.__file__)))


def _lit(x):
    if isinstance(x, float):
        if x == float("inf"):
            return "float('inf')"
        if x == -float("inf"):
            return "-float('inf')"
    return repr(x)


def _nested(table, sizes):
    """row-major flat list -> nested lists"""
    if not sizes:
        return table[0]
    if len(sizes) == 1:
        return list(table)
    step = len(table) // sizes[0]
    return [_nested(table[i * step:(i + 1) * step], sizes[1:]) for i in range(sizes[0])]


def _expr_for(scope, doms, table):
    """A python expression equal to the table: nested dict literals indexed by values."""
    def rec(tab, k):
        if k == len(scope):
            return _lit(tab[0])
        step = len(tab) // len(doms[k])
        parts = []
        for i, val in enumerate(doms[k]):
            parts.append(f"{val!r}: {rec(tab[i * step:(i + 1) * step], k + 1)}")
        return "{" + ", ".join(parts) + "}"
    return rec(table, 0) + "".join(f"[{x}]" for x in scope)


class Built:
    """pydcop objects for a case."""

    def __init__(self, case):
        self.case = case
        self.domains = {}
        for dname, vals in case["domains"].items():
            t = "str" if vals and isinstance(vals[0], str) else "int"
            self.domains[dname] = Domain(dname, t, list(vals))
        self.variables = {}
        for v in case["variables"]:
            d = self.domains[v["domain"]]
            cost = v.get("cost")
            if not cost:
                var = Variable(v["name"], d, v.get("initial"))
            elif cost["kind"] == "dict":
                var = VariableWithCostDict(v["name"], d, dict(zip(d.values, cost["costs"])),
                                           v.get("initial"))
            else:
                expr = "{" + ", ".join(f"{val!r}: {_lit(c)}" for val, c in
                                        zip(d.values, cost["costs"])) + "}[" + v["name"] + "]"
                var = VariableWithCostFunc(v["name"], d, ExpressionFunction(expr),
                                           v.get("initial"))
            self.variables[v["name"]] = var
        self.constraints = {}
        for c in case["constraints"]:
            scope_vars = [self.variables[x] for x in c["scope"]]
            doms = [list(self.variables[x].domain.values) for x in c["scope"]]
            if c.get("render", "matrix") == "matrix":
                rel = NAryMatrixRelation(scope_vars, _nested(c["table"], [len(d) for d in doms]),
                                         name=c["name"])
            else:
                rel = constraint_from_str(c["name"], _expr_for(c["scope"], doms, c["table"]),
                                          scope_vars)
            self.constraints[c["name"]] = rel
        self.dcop = DCOP("case", case["objective"])
        for var in self.variables.values():
            self.dcop.add_variable(var)
        for dom in self.domains.values():
            self.dcop.domains[dom.name] = dom
        for rel in self.constraints.values():
            self.dcop.add_constraint(rel)
        for a in case.get("agents", []):
            self.dcop.add_agents([agent_def(a)])

    def graph(self, algo):
        mod = load_algorithm_module(algo)
        gmod = importlib.import_module("pydcop.computations_graph." + mod.GRAPH_TYPE)
        return gmod.build_computation_graph(self.dcop)

    def algo_def(self, algo, params=None, mode=None):
        return AlgorithmDef.build_with_default_param(
            algo, dict(params or {}), mode=mode or self.case["objective"])

    def computations(self, algo, params=None, graph=None):
        """name -> computation, in graph node order"""
        adef = self.algo_def(algo, params)
        graph = graph or self.graph(algo)
        mod = load_algorithm_module(algo)
        comps = collections.OrderedDict()
        for node in graph.nodes:
            comps[node.name] = mod.build_computation(ComputationDef(node, adef))
        return comps, graph


def agent_def(a):
    kw = {}
    if "capacity" in a:
        kw["capacity"] = a["capacity"]
    for k, v in a.get("extra", {}).items():
        kw[k] = v
    return AgentDef(a["name"],
                    default_route=a.get("default_route", 1),
                    routes=dict(a.get("routes", {})),
                    default_hosting_cost=a.get("default_hosting_cost", 0),
                    hosting_costs=dict(a.get("hosting_costs", {})), **kw)
