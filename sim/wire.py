"""Wire mode: the shipped HTTP transport code without sockets, and process spawn by pickle.

`WireCommLayer(HttpCommunicationLayer)` overrides only `_start_server`/`shutdown`.
`communication.requests.post` is replaced by a function that lets *requests itself* build the
body (`requests.Request(...).prepare()`, i.e. its JSON encoder with allow_nan=False), finds the
destination layer by (ip, port) and runs the real `MPCHttpHandler.do_POST` on it.  `run.Process`
is replaced by a fake whose start() pickles and un-pickles the arguments (what the `spawn`
start method does) and runs the target synchronously.
"""
import io
import pickle
import types

import numpy as np
import requests

_LAYERS = {}
_STACK = []
_STACK_SEEN = []          # originals of the messages currently being sent (synchronous delivery)
OBSERVER = None      # set by the check: gets (kind, original, decoded/exception, context)
_PATCHES = []


def make_layer_class():
    from pydcop.infrastructure.communication import HttpCommunicationLayer

    class WireCommLayer(HttpCommunicationLayer):
        def _start_server(self):
            _LAYERS[tuple(self._address)] = self

        def shutdown(self):
            _LAYERS.pop(tuple(self._address), None)
    return WireCommLayer


class _Resp:
    def __init__(self, status):
        self.status_code = status


def fake_post(url, headers=None, json=None, timeout=None, data=None, **kw):
    from pydcop.infrastructure.communication import MPCHttpHandler
    original = _STACK[-1] if _STACK else None
    if _STACK_SEEN:
        _STACK_SEEN[-1] = True           # the POST was attempted: errors are reported here
    try:
        prepared = requests.Request("POST", url, headers=headers, json=json, data=data).prepare()
    except Exception as e:
        if OBSERVER:
            OBSERVER("encode_error", original, e, headers)
        raise
    hostport = url.split("//", 1)[1].split("/", 1)[0]
    host, port = hostport.rsplit(":", 1)
    layer = _LAYERS.get((host, int(port)))
    if layer is None:
        raise requests.exceptions.ConnectionError(f"no agent listening on {hostport}")
    handler = object.__new__(MPCHttpHandler)
    handler.headers = prepared.headers
    body = prepared.body if isinstance(prepared.body, bytes) else (prepared.body or "").encode()
    handler.rfile = io.BytesIO(body)
    handler.server = types.SimpleNamespace(comm=layer)
    handler.path = "/pydcop"
    status = []
    handler.send_response = lambda code, *a: status.append(code)
    handler.send_header = lambda *a: None
    handler.end_headers = lambda: None
    try:
        handler.do_POST()
    except Exception as e:
        if OBSERVER:
            OBSERVER("decode_error", original, e, headers)
        raise
    return _Resp(status[0] if status else 200)


class FakeProcess:
    """multiprocessing.Process under the 'spawn' start method: the arguments are pickled."""

    def __init__(self, target=None, name=None, args=(), kwargs=None, daemon=None):
        self.target, self.name = target, name
        self.args, self.kwargs = list(args), dict(kwargs or {})

    def start(self):
        try:
            args, kwargs = pickle.loads(pickle.dumps((self.args, self.kwargs)))
        except Exception as e:
            if OBSERVER:
                OBSERVER("pickle_error", self.args, e, None)
            raise
        if OBSERVER:
            OBSERVER("spawn", self.args, args, None)
        self.target(*args, **kwargs)


def install(observer):
    global OBSERVER
    import pydcop.infrastructure.communication as communication
    import pydcop.infrastructure.run as run
    OBSERVER = observer
    _LAYERS.clear()
    del _STACK[:]
    Wire = make_layer_class()

    def patch(obj, name, val):
        _PATCHES.append((obj, name, getattr(obj, name)))
        setattr(obj, name, val)
    fake_requests = types.SimpleNamespace(post=fake_post)
    patch(communication, "requests", fake_requests)
    patch(run, "HttpCommunicationLayer", Wire)
    patch(run, "Process", FakeProcess)
    # observe every transmitted object: original at send_msg, decoded at on_post_message
    orig_send = communication.HttpCommunicationLayer.send_msg
    orig_recv = communication.HttpCommunicationLayer.on_post_message

    def send_msg(layer, src_agent, dest_agent, msg, on_error=None):
        _STACK.append(msg)
        _STACK_SEEN.append(False)
        try:
            return orig_send(layer, src_agent, dest_agent, msg, on_error)
        except Exception as e:
            # an exception raised by the sending code itself, before the POST is attempted
            # (encoding done by send_msg) is an encode error too
            if OBSERVER and not _STACK_SEEN[-1]:
                OBSERVER("encode_error", msg, e, None)
            raise
        finally:
            _STACK.pop()
            _STACK_SEEN.pop()

    def on_post_message(layer, path, sender, dest, msg):
        if OBSERVER and _STACK:
            OBSERVER("message", _STACK[-1], msg, (sender, dest))
        return orig_recv(layer, path, sender, dest, msg)
    patch(communication.HttpCommunicationLayer, "send_msg", send_msg)
    patch(communication.HttpCommunicationLayer, "on_post_message", on_post_message)
    return Wire


def uninstall():
    global OBSERVER
    while _PATCHES:
        obj, name, val = _PATCHES.pop()
        setattr(obj, name, val)
    OBSERVER = None
    _LAYERS.clear()
    import logging
    root = logging.getLogger("")
    for h in list(root.handlers):
        root.removeHandler(h)


# ---- deep comparison ---------------------------------------------------------------

_IGNORED_ATTRS = {"logger", "_matrix", "exp_func"}


def _is_relation(o):
    return hasattr(o, "dimensions") and hasattr(o, "get_value_for_assignment") or \
        (hasattr(o, "dimensions") and callable(o))


def deep_eq(a, b, path="msg", depth=0):
    """None when b is a faithful copy of a, else a description of the first difference."""
    import itertools
    if depth > 40:
        return None
    if isinstance(a, str):
        return None if (isinstance(b, str) and a == b) else f"{path}: {a!r} != {b!r}"
    if a is None or isinstance(a, bool):
        return None if (a == b and type(a) == type(b)) else f"{path}: {a!r} != {b!r}"
    if isinstance(a, (int, float, np.integer, np.floating)):
        if isinstance(b, (int, float, np.integer, np.floating)) and not isinstance(b, bool):
            if (a == b) or (a != a and b != b):
                return None
        return f"{path}: {a!r} ({type(a).__name__}) != {b!r} ({type(b).__name__})"
    if isinstance(a, np.ndarray):
        try:
            ok = a.shape == np.asarray(b).shape and np.array_equal(a, np.asarray(b), equal_nan=True)
        except Exception:
            ok = False
        return None if ok else f"{path}: arrays differ {a!r} vs {b!r}"
    if isinstance(a, (set, frozenset)):
        # documented: sets are transmitted as lists
        if not isinstance(b, (set, frozenset, list, tuple)):
            return f"{path}: set became {type(b).__name__}"
        return None if sorted(map(repr, a)) == sorted(map(repr, b)) else \
            f"{path}: set {sorted(map(repr, a))} != {sorted(map(repr, b))}"
    if isinstance(a, tuple) and hasattr(a, "_fields"):
        if type(a).__name__ != type(b).__name__ or a._fields != getattr(b, "_fields", None):
            return f"{path}: namedtuple {type(a).__name__} became {type(b).__name__}"
        for f in a._fields:
            d = deep_eq(getattr(a, f), getattr(b, f), f"{path}.{f}", depth + 1)
            if d:
                return d
        return None
    if isinstance(a, tuple) or isinstance(a, list):
        if type(a) != type(b):
            # ComputationMessage is a namedtuple handled below; plain tuple <-> list is a change
            return f"{path}: {type(a).__name__} became {type(b).__name__}"
        if len(a) != len(b):
            return f"{path}: length {len(a)} != {len(b)}"
        for i, (x, y) in enumerate(zip(a, b)):
            d = deep_eq(x, y, f"{path}[{i}]", depth + 1)
            if d:
                return d
        return None
    if isinstance(a, dict):
        if not isinstance(b, dict):
            return f"{path}: dict became {type(b).__name__}"
        ka, kb = sorted(map(repr, a)), sorted(map(repr, b))
        if ka != kb:
            return f"{path}: dict keys {ka} != {kb}"
        for k in a:
            d = deep_eq(a[k], b[k], f"{path}[{k!r}]", depth + 1)
            if d:
                return d
        return None
    if callable(a) and not hasattr(a, "__dict__"):
        return None
    if type(a) != type(b):
        # classes produced by message_type() are re-created on decode: compare by name/module
        if not (type(a).__name__ == type(b).__name__ and type(a).__module__ == type(b).__module__):
            return f"{path}: class {type(a).__name__} became {type(b).__name__}"
    if _is_relation(a) and hasattr(a, "dimensions"):
        da, db = [v.name for v in a.dimensions], [v.name for v in b.dimensions]
        if da != db:
            return f"{path}: relation dimensions {da} != {db}"
        if getattr(a, "name", None) != getattr(b, "name", None):
            return f"{path}: relation name {a.name!r} != {b.name!r}"
        doms = [list(v.domain) for v in a.dimensions]
        for d_a, d_b in zip(a.dimensions, b.dimensions):
            d = deep_eq(d_a, d_b, f"{path}.dim({d_a.name})", depth + 1)
            if d:
                return d
        for combo in itertools.islice(itertools.product(*doms), 5000):
            asg = dict(zip(da, combo))
            va, vb = a(**asg), b(**asg)
            if not (va == vb or (va != va and vb != vb)):
                return f"{path}: relation value at {asg}: {va!r} != {vb!r}"
        return None
    if hasattr(a, "__dict__"):
        va, vb = vars(a), vars(b) if hasattr(b, "__dict__") else {}
        for k, x in va.items():
            if k in _IGNORED_ATTRS or k.startswith("__") or callable(x) and not hasattr(x, "__dict__"):
                continue
            if k not in vb:
                return f"{path}.{k}: attribute missing after decoding (was {x!r})"
            y = vb[k]
            if k in ("_neighbors", "exp_vars") or isinstance(x, (set, frozenset)):
                if sorted(map(repr, x)) != sorted(map(repr, y)):
                    return f"{path}.{k}: {sorted(map(repr, x))} != {sorted(map(repr, y))}"
                continue
            d = deep_eq(x, y, f"{path}.{k}", depth + 1)
            if d:
                return d
        return None
    return None if a == b else f"{path}: {a!r} != {b!r}"
