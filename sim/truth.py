"""Ground truth computed from the case tables only (never through pydcop)."""
import itertools
import math


class Truth:
    def __init__(self, case):
        self.case = case
        self.objective = case["objective"]
        self.dom = {v["name"]: list(case["domains"][v["domain"]]) for v in case["variables"]}
        self.names = [v["name"] for v in case["variables"]]
        self.varcost = {}
        for v in case["variables"]:
            if v.get("cost"):
                self.varcost[v["name"]] = dict(zip(self.dom[v["name"]], v["cost"]["costs"]))
        self.cons = []
        for c in case["constraints"]:
            scope = c["scope"]
            sizes = [len(self.dom[x]) for x in scope]
            strides = []
            s = 1
            for sz in reversed(sizes):
                strides.append(s)
                s *= sz
            strides.reverse()
            index = [{val: i for i, val in enumerate(self.dom[x])} for x in scope]
            self.cons.append((c["name"], scope, strides, index, c["table"]))
        self.cons_of = {n: [] for n in self.names}
        for con in self.cons:
            for x in con[1]:
                self.cons_of[x].append(con)

    # -- evaluation --------------------------------------------------------
    def con_value(self, con, asg):
        _, scope, strides, index, table = con
        k = 0
        for x, st, ix in zip(scope, strides, index):
            k += st * ix[asg[x]]
        return table[k]

    def cost(self, asg, with_varcost=True):
        total = 0
        for con in self.cons:
            total += self.con_value(con, asg)
        if with_varcost:
            for x, vc in self.varcost.items():
                total += vc[asg[x]]
        return total

    def local_cost(self, var, asg, with_varcost=True):
        """Sum of the constraints involving var (+ var's own cost)."""
        total = 0
        for con in self.cons_of[var]:
            total += self.con_value(con, asg)
        if with_varcost and var in self.varcost:
            total += self.varcost[var][asg[var]]
        return total

    def better(self, a, b):
        """a strictly better than b for the objective."""
        return a < b if self.objective == "min" else a > b

    def all_assignments(self):
        doms = [self.dom[n] for n in self.names]
        for vals in itertools.product(*doms):
            yield dict(zip(self.names, vals))

    def optimum(self):
        """(best cost, number of optimal assignments, one optimal assignment)"""
        best, count, arg = None, 0, None
        for asg in self.all_assignments():
            c = self.cost(asg)
            if best is None or self.better(c, best):
                best, count, arg = c, 1, asg
            elif c == best:
                count += 1
        return best, count, arg

    def best_response(self, var, asg, with_varcost=True):
        """(set of optimal values for var given the others in asg, that local cost)"""
        best, vals = None, []
        a = dict(asg)
        for val in self.dom[var]:
            a[var] = val
            c = self.local_cost(var, a, with_varcost)
            if best is None or self.better(c, best):
                best, vals = c, [val]
            elif c == best:
                vals.append(val)
        return vals, best

    def is_one_opt(self, asg):
        """No single variable can strictly improve the global cost alone.
        Returns (True, None) or (False, (var, value, current, better))."""
        cur = self.cost(asg)
        for var in self.names:
            a = dict(asg)
            for val in self.dom[var]:
                if val == asg[var]:
                    continue
                a[var] = val
                c = self.cost(a)
                if self.better(c, cur):
                    return False, (var, val, cur, c)
        return True, None

    def violated(self, asg, infinity):
        """Names of constraints whose value equals the hard-constraint value."""
        return [con[0] for con in self.cons if self.con_value(con, asg) == infinity]


def same_cost(a, b, rel=None):
    """Exact comparison: every generated cost is an int or a multiple of 0.25, so all sums are
    exactly representable as float64 (no tolerance that could hide an off-by-one at 1e10)."""
    try:
        if a == b:
            return True
        return a != a and b != b          # nan == nan
    except TypeError:
        return False
