"""In-vivo monitors for the best-response helpers (C06).

Every call the algorithms make to find_optimal / find_arg_optimal / optimal_cost_value /
projection during a simulated run is re-computed by brute force on the actual arguments
and compared (full optimal set and cost; projection value for every remaining assignment).
"""
import itertools
import math
import sys

_TARGETS = {
    "find_optimal": ["pydcop.algorithms.dsa", "pydcop.algorithms.dsatuto", "pydcop.algorithms.ncbb"],
    "find_arg_optimal": ["pydcop.algorithms.mgm", "pydcop.algorithms.dpop", "pydcop.dcop.relations"],
    "optimal_cost_value": ["pydcop.algorithms.mgm", "pydcop.algorithms.mgm2", "pydcop.algorithms.dsa",
                           "pydcop.algorithms.adsa", "pydcop.algorithms.gdba"],
    "projection": ["pydcop.algorithms.dpop"],
}


def _eq(a, b):
    """Exact (all generated costs are dyadic rationals far below 2**53)."""
    try:
        if a == b:
            return True
        if a != a and b != b:
            return True
    except Exception:
        pass
    try:
        return float(a) == float(b)
    except Exception:
        return False


def _best(pairs, mode):
    """pairs: [(value, cost)] -> (list of optimal values, cost)"""
    best, vals = None, []
    for v, c in pairs:
        if best is None or (c < best if mode == "min" else c > best):
            best, vals = c, [v]
        elif c == best:
            vals.append(v)
    return vals, best


class Monitors:
    def __init__(self):
        self.violations = []       # (helper, detail)
        self.calls = {k: 0 for k in _TARGETS}
        self.huge = 0
        self.infinite = 0
        self._saved = []
        self._busy = False

    def _note_magnitude(self, c):
        try:
            if math.isinf(c):
                self.infinite += 1
            elif abs(c) > 2 ** 31:
                self.huge += 1
        except Exception:
            pass

    def install(self):
        import importlib
        rel = importlib.import_module("pydcop.dcop.relations")
        orig = {name: getattr(rel, name) for name in _TARGETS}
        wrappers = {
            "find_optimal": self._wrap_find_optimal(orig["find_optimal"]),
            "find_arg_optimal": self._wrap_find_arg_optimal(orig["find_arg_optimal"]),
            "optimal_cost_value": self._wrap_optimal_cost_value(orig["optimal_cost_value"]),
            "projection": self._wrap_projection(orig["projection"]),
        }
        for name, mods in _TARGETS.items():
            for mname in mods:
                m = sys.modules.get(mname)
                if m is None:
                    try:
                        m = importlib.import_module(mname)
                    except Exception:
                        continue
                if hasattr(m, name):
                    self._saved.append((m, name, getattr(m, name)))
                    setattr(m, name, wrappers[name])
        return self

    def uninstall(self):
        for m, name, f in reversed(self._saved):
            setattr(m, name, f)
        self._saved = []

    def _fail(self, helper, detail):
        if len(self.violations) < 5:
            self.violations.append((helper, detail))

    # -- wrappers -------------------------------------------------------------
    def _wrap_find_optimal(self, f):
        def find_optimal(variable, assignment, constraints, mode):
            if self._busy:
                return f(variable, assignment, constraints, mode)
            base = dict(assignment)
            cons = list(constraints)
            try:
                res = f(variable, assignment, cons, mode)
            except Exception as e:
                self._fail("find_optimal", f"find_optimal({variable.name}, {base}, "
                           f"{[c.name for c in cons]}, {mode}) raised {e!r}")
                raise
            self._busy = True
            try:
                self.calls["find_optimal"] += 1
                pairs = []
                for val in variable.domain:
                    a = dict(base)
                    a[variable.name] = val
                    c = 0
                    for con in cons:
                        c += con(**{v.name: a[v.name] for v in con.dimensions})
                    c += variable.cost_for_val(val)
                    self._note_magnitude(c)
                    pairs.append((val, c))
                vals, cost = _best(pairs, mode)
                try:
                    got_vals, got_cost = res
                    ok = sorted(map(repr, got_vals)) == sorted(map(repr, vals)) and _eq(got_cost, cost)
                except Exception:
                    ok = False
                if not ok:
                    self._fail("find_optimal", f"find_optimal({variable.name}, {base}, "
                               f"{[c.name for c in cons]}, {mode}) returned {res}, brute force "
                               f"gives ({vals}, {cost}) from {pairs}")
            finally:
                self._busy = False
            return res
        return find_optimal

    def _wrap_find_arg_optimal(self, f):
        def find_arg_optimal(variable, relation, mode):
            if self._busy:
                return f(variable, relation, mode)
            try:
                res = f(variable, relation, mode)
            except Exception as e:
                try:
                    pairs = [(v, relation(v)) for v in variable.domain]
                except Exception:
                    pairs = "?"
                if pairs != "?":        # a legitimate rejection of a malformed relation is not a finding
                    self._fail("find_arg_optimal", f"find_arg_optimal({variable.name}, ..., {mode}) "
                               f"raised {e!r} on costs {pairs}")
                raise
            self._busy = True
            try:
                self.calls["find_arg_optimal"] += 1
                pairs = [(v, relation(v)) for v in variable.domain]
                for _, c in pairs:
                    self._note_magnitude(c)
                vals, cost = _best(pairs, mode)
                try:
                    got_vals, got_cost = res
                    ok = sorted(map(repr, got_vals)) == sorted(map(repr, vals)) and _eq(got_cost, cost)
                except Exception:
                    ok = False
                if not ok:
                    self._fail("find_arg_optimal", f"find_arg_optimal({variable.name}, ..., {mode}) "
                               f"returned {res}, brute force gives ({vals}, {cost}) from {pairs}")
            finally:
                self._busy = False
            return res
        return find_arg_optimal

    def _wrap_optimal_cost_value(self, f):
        def optimal_cost_value(variable, mode):
            res = f(variable, mode)
            if self._busy:
                return res
            self._busy = True
            try:
                self.calls["optimal_cost_value"] += 1
                if hasattr(variable, "cost_for_val"):
                    pairs = [(v, variable.cost_for_val(v)) for v in variable.domain]
                    vals, cost = _best(pairs, mode)
                    try:
                        val, got_cost = res
                        ok = any(repr(val) == repr(v) for v in vals) and _eq(got_cost, cost)
                    except Exception:
                        ok = False
                    if not ok:
                        self._fail("optimal_cost_value", f"optimal_cost_value({variable.name}, "
                                   f"{mode}) returned {res}, optimal values {vals} cost {cost}")
            finally:
                self._busy = False
            return res
        return optimal_cost_value

    def _wrap_projection(self, f):
        def projection(a_rel, a_var, mode="max"):
            if self._busy:
                return f(a_rel, a_var, mode)
            res = f(a_rel, a_var, mode)
            self._busy = True
            try:
                self.calls["projection"] += 1
                rest = [v for v in a_rel.dimensions if v != a_var]
                if [v.name for v in res.dimensions] != [v.name for v in rest]:
                    self._fail("projection", f"projection over {a_var.name}: dimensions "
                               f"{[v.name for v in res.dimensions]} != {[v.name for v in rest]}")
                else:
                    for combo in itertools.product(*[list(v.domain) for v in rest]):
                        asg = dict(zip([v.name for v in rest], combo))
                        pairs = []
                        for val in a_var.domain:
                            full = dict(asg)
                            full[a_var.name] = val
                            c = a_rel(**full)
                            self._note_magnitude(c)
                            pairs.append((val, c))
                        _, want = _best(pairs, mode)
                        got = res(**asg) if rest else res.get_value_for_assignment({})
                        if not _eq(got, want):
                            self._fail("projection", f"projection({a_rel.name}, {a_var.name}, "
                                       f"{mode}) at {asg} = {got}, brute force {want} from {pairs}")
                            break
            finally:
                self._busy = False
            return res
        return projection
