"""Developer loop: run N seeds of one property in-process, print a summary."""
import collections
import importlib
import random
import sys
import time

from sim.tape import Tape, run_seed
from sim.execute import make_case


def main():
    prop, n = sys.argv[1], int(sys.argv[2])
    tier = sys.argv[3] if len(sys.argv) > 3 else "quick"
    mod = importlib.import_module("sim.props." + prop.lower())
    t0 = time.time()
    viol = collections.Counter()
    first = {}
    stats = collections.Counter()
    nontriv = 0
    for i in range(n):
        seed = run_seed(0, prop, tier, i)
        case = make_case(mod, seed, tier, i, 0)
        tape = Tape(seed)
        out = mod.execute(case, tape)
        stats.update(out["stats"])
        nontriv += bool(out["nontrivial"])
        for v in out["violations"]:
            key = (v["oracle"], tuple(sorted((k, str(x)) for k, x in v["features"].items())))
            viol[key] += 1
            first.setdefault((v["oracle"], v["features"].get("exc"), v["features"].get("k"), v["features"].get("kind"), v["features"].get("subscriber_hosted_it"), v["features"].get("where"), v["features"].get("msg_class"), v["features"].get("algo")), (i, v["detail"]))
    dt = time.time() - t0
    print(f"{n} runs in {dt:.1f}s ({n/dt:.0f}/s) nontrivial={nontriv}")
    print(dict(stats))
    for k, c in viol.most_common():
        print(c, k)
    for k, (i, d) in first.items():
        print("FIRST", k, "run", i, d[:1500])


main()
