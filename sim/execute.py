"""Run one (case, tape) pair of a property module under a wall-clock alarm."""
import contextlib
import io
import json
import random
import signal

class RunTimeout(BaseException):
    pass


def _alarm(signum, frame):
    raise RunTimeout()


def signature(prop, v):
    return json.dumps([prop, v["oracle"], sorted((k, str(x)) for k, x in v["features"].items())])


def run_one(mod, case, tape, timeout_s):
    """Execute one run under a wall-clock alarm; returns the outcome dict."""
    signal.signal(signal.SIGALRM, _alarm)
    signal.setitimer(signal.ITIMER_REAL, timeout_s)
    try:
        with contextlib.redirect_stdout(io.StringIO()):
            out = mod.execute(case, tape)
    except RunTimeout:
        out = {"violations": [{"oracle": "no_hang",
                               "detail": f"run did not complete within {timeout_s}s of wall time",
                               "features": {"hang": True}}],
               "nontrivial": False, "stats": {}, "subspace": "", "sim_time": 0.0,
               "steps": 0, "sut_error": "hang"}
    finally:
        signal.setitimer(signal.ITIMER_REAL, 0)
    return out


def make_case(mod, seed, tier, index=None, verif_seed=0):
    """The explicit case of a run.  Modules that enumerate a fault space per instance
    (generate_indexed) derive the instance from index // group and the fault from index % group."""
    gi = getattr(mod, "generate_indexed", None)
    if gi is not None and index is not None:
        return gi(verif_seed, tier, index)
    return mod.generate(random.Random(seed ^ 0x5EED5EED), tier)
