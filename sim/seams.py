"""Seams shared by both engines: randomness, process-global state."""
import importlib
import sys

from . import build  # noqa: F401  (sets sys.path, disables logging)
from .tape import TapeRandom

_RANDOM_MODULES = [
    "pydcop.infrastructure.agents", "pydcop.dcop.objects", "pydcop.dcop.relations",
    "pydcop.algorithms.mgm2", "pydcop.algorithms.gdba", "pydcop.algorithms.mgm",
    "pydcop.algorithms.adsa", "pydcop.algorithms.mixeddsa", "pydcop.algorithms.dsa",
    "pydcop.algorithms.dba", "pydcop.utils.graphs",
    "pydcop.distribution.gh_cgdp",
]
_CHOICE_MODULES = ["pydcop.algorithms.dpop", "pydcop.algorithms.ncbb",
                   "pydcop.distribution.adhoc"]


def _try_import(name):
    try:
        return importlib.import_module(name)
    except Exception:
        return None


def install_random(tape):
    """Route every random decision of pydcop through the tape."""
    import numpy
    rnd = TapeRandom(tape)
    for name in _RANDOM_MODULES:
        m = sys.modules.get(name) or _try_import(name)
        if m is not None and hasattr(m, "random"):
            m.random = rnd
    for name in _CHOICE_MODULES:
        m = sys.modules.get(name) or _try_import(name)
        if m is not None:
            if hasattr(m, "choice"):
                m.choice = rnd.choice
            if hasattr(m, "shuffle"):
                m.shuffle = rnd.shuffle
    # numpy's global RandomState stays real (its return types matter), re-seeded per run
    numpy.random.seed(tape.draw(1 << 30))
    return rnd


def reset_globals():
    """Reset pydcop's process-global mutable state between runs."""
    from pydcop.infrastructure.Events import event_bus
    event_bus.enabled = False
    for attr in ("_cbs", "_subscribers", "subscribers"):
        v = getattr(event_bus, attr, None)
        if isinstance(v, dict):
            v.clear()
        elif isinstance(v, list):
            del v[:]
    dba = sys.modules.get("pydcop.algorithms.dba")
    if dba is not None and hasattr(dba, "INFINITY"):
        dba.INFINITY = 10000
    mgm2 = sys.modules.get("pydcop.algorithms.mgm2")
    if mgm2 is not None:
        f = getattr(mgm2.Mgm2Computation, "_compute_cost", None)
        if hasattr(f, "cache_clear"):
            f.cache_clear()
    ucs = sys.modules.get("pydcop.replication.dist_ucs_hostingcosts")
    if ucs is not None:
        memo = getattr(ucs.UCSReplication, "memoize_footprint", None)
        if isinstance(memo, dict):
            memo.clear()
