"""Known findings: genuine defects recorded rather than repaired.

/verif/known_findings.json is committed and never written at run time.  A violation is a
known finding iff, for some *open* entry of the same property, the oracle is equal and
every key of the entry's `match` equals the violation's feature of that name.
`fixed` entries match nothing.
"""
import json
import os

PATH = os.path.join(os.path.dirname(os.path.dirname(os.path.abspath(__file__))),
                    "known_findings.json")


def load():
    try:
        with open(PATH) as f:
            return json.load(f)["findings"]
    except FileNotFoundError:
        return []


def match(known, prop, v):
    for k in known:
        if k.get("status") != "open" or k["property"] != prop:
            continue
        if k["oracle"] != v["oracle"]:
            continue
        feats = v.get("features", {})
        if all(str(feats.get(key)) == str(val) for key, val in k.get("match", {}).items()):
            return k["id"]
    return None
