"""The tape: the single source of every nondeterministic decision of a run.

A run is a pure function of (case, config, tape).  In record mode the tape draws
integers from a PRNG seeded with the run seed and records them; in replay mode it
plays back a recorded list and answers 0 ("first alternative") once exhausted, so
that truncated or edited tapes are always valid inputs (this is what makes tape
shrinking possible).

Nothing in this module reads a clock or any global state.
"""
import hashlib
import random as _random


def run_seed(verif_seed, prop, tier, i):
    """Derive the 64-bit seed of run *i* of a batch from VERIF_SEED."""
    h = hashlib.sha256(f"{verif_seed}:{prop}:{tier}:{i}".encode()).digest()
    return int.from_bytes(h[:8], "big")


class Tape:
    __slots__ = ("_rng", "_replay", "_pos", "rec", "choice_points", "log", "_h")

    def __init__(self, seed=None, replay=None):
        if replay is not None:
            self._replay = list(replay)
            self._rng = None
        else:
            self._replay = None
            self._rng = _random.Random(seed)
        self._pos = 0
        self.rec = []            # recorded draws (ints), the replayable tape
        self.choice_points = 0   # draws that had >= 2 alternatives
        self._h = hashlib.sha256()

    # -- primitive ---------------------------------------------------------
    def draw(self, n):
        """An integer in [0, n).  n <= 1 consumes nothing."""
        if n <= 1:
            return 0
        if self._replay is not None:
            if self._pos < len(self._replay):
                v = self._replay[self._pos] % n
            else:
                v = 0
            self._pos += 1
        else:
            v = self._rng.randrange(n)
        self.rec.append(v)
        self.choice_points += 1
        return v

    # -- conveniences ------------------------------------------------------
    def coin(self, p):
        """True with probability p (resolution 1/4096). False is alternative 0."""
        if p <= 0:
            return False
        if p >= 1:
            return True
        return (4095 - self.draw(4096)) < int(p * 4096)

    def uniform(self, a, b):
        return a + (b - a) * (self.draw(1 << 20) / float(1 << 20))

    def pick(self, seq):
        return seq[self.draw(len(seq))]

    # -- event log digest (never draws) ------------------------------------
    def note(self, *items):
        self._h.update(repr(items).encode())
        self._h.update(b"\n")

    def digest(self):
        h = self._h.copy()
        h.update(repr(self.rec).encode())
        return h.hexdigest()


class TapeRandom(_random.Random):
    """A `random.Random` whose entropy comes from a Tape.

    Only `random()` and `getrandbits()` are overridden, so `choice`, `uniform`,
    `sample`, `shuffle`, `randint`, `randrange` keep CPython's exact semantics and
    return types.  Installed as the module attribute `random` of every pyDcop
    module that imports it.
    """

    def __init__(self, tape):
        self._tape = tape
        super().__init__(0)

    def seed(self, *a, **k):  # seeding is meaningless here
        return None

    def random(self):
        return self._tape.draw(1 << 30) / float(1 << 30)

    def getrandbits(self, k):
        if k <= 0:
            return 0
        if k <= 30:
            return self._tape.draw(1 << k)
        v = 0
        got = 0
        while got < k:
            step = min(30, k - got)
            v = (v << step) | self._tape.draw(1 << step)
            got += step
        return v

    def getstate(self):
        raise NotImplementedError

    def setstate(self, s):
        raise NotImplementedError
