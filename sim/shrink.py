"""Minimisation of a violating (case, tape) pair.

Accepts a candidate when the *same oracle of the same property* still fails.  Case
candidates are re-run under the current tape and a few fresh tapes; tape candidates are
truncations / zeroings (an exhausted tape answers 0, "first alternative").
"""
import copy
import time

from .execute import run_one
from .tape import Tape


def _fails(mod, case, tape_list, oracle, run_timeout, seed=None):
    tape = Tape(seed=seed) if tape_list is None else Tape(replay=tape_list)
    try:
        out = run_one(mod, case, tape, run_timeout)
    except Exception:
        return None
    for v in out["violations"]:
        if v["oracle"] == oracle and (ACCEPT is None or ACCEPT(v)):
            return v, list(tape.rec)
    return None


ACCEPT = None      # optional predicate set by the worker: keep only violations that are not a
                   # known finding, so that minimisation cannot drift into a listed class


def _slice_table(table, sizes, axis, keep):
    """Keep indices `keep` along `axis` of a row-major table."""
    out = []
    strides = []
    s = 1
    for sz in reversed(sizes):
        strides.append(s)
        s *= sz
    strides.reverse()

    def rec(k, base):
        if k == len(sizes):
            out.append(table[base])
            return
        rng = keep if k == axis else range(sizes[k])
        for i in rng:
            rec(k + 1, base + i * strides[k])
    rec(0, 0)
    return out


def _dom(case, var):
    for v in case["variables"]:
        if v["name"] == var:
            return case["domains"][v["domain"]]
    raise KeyError(var)


def case_candidates(case):
    """Smaller variants of a DCOP case (generic part)."""
    cons = case.get("constraints", [])
    # drop one constraint
    for i in range(len(cons)):
        c = copy.deepcopy(case)
        del c["constraints"][i]
        yield c
    # drop one variable: fix it at its first value in every constraint
    if len(case.get("variables", [])) > 1 and not case.get("no_var_drop"):
        for vi, v in enumerate(case["variables"]):
            c = copy.deepcopy(case)
            name = v["name"]
            newcons = []
            for con in c["constraints"]:
                if name in con["scope"]:
                    sizes = [len(_dom(case, x)) for x in con["scope"]]
                    ax = con["scope"].index(name)
                    con["table"] = _slice_table(con["table"], sizes, ax, [0])
                    con["scope"] = [x for x in con["scope"] if x != name]
                    if not con["scope"]:
                        continue
                newcons.append(con)
            c["constraints"] = newcons
            del c["variables"][vi]
            c["domains"].pop(v["domain"], None)
            yield c
    # shrink a domain: drop its last value
    for v in case.get("variables", []):
        vals = case["domains"][v["domain"]]
        if len(vals) <= 1:
            continue
        for drop in (len(vals) - 1, 0):
            if v.get("initial") == vals[drop]:
                continue
            c = copy.deepcopy(case)
            keep = [i for i in range(len(vals)) if i != drop]
            c["domains"][v["domain"]] = [vals[i] for i in keep]
            for vv in c["variables"]:
                if vv["name"] == v["name"] and vv.get("cost"):
                    vv["cost"]["costs"] = [vv["cost"]["costs"][i] for i in keep]
            for con in c["constraints"]:
                if v["name"] in con["scope"]:
                    sizes = [len(_dom(case, x)) for x in con["scope"]]
                    ax = con["scope"].index(v["name"])
                    con["table"] = _slice_table(con["table"], sizes, ax, keep)
            yield c
    # drop variable costs / initial values
    for vi, v in enumerate(case.get("variables", [])):
        if v.get("cost"):
            c = copy.deepcopy(case)
            c["variables"][vi]["cost"] = None
            yield c
        if v.get("initial") is not None:
            c = copy.deepcopy(case)
            c["variables"][vi]["initial"] = None
            yield c
    # simplify renderings and costs
    for ci, con in enumerate(cons):
        if con.get("render") != "matrix":
            c = copy.deepcopy(case)
            c["constraints"][ci]["render"] = "matrix"
            yield c
        tab = con["table"]
        if any(isinstance(x, float) or abs(x) > 9 for x in tab if x == x and abs(x) != float("inf")):
            c = copy.deepcopy(case)
            order = sorted(set(x for x in tab if abs(x) != float("inf")))
            rank = {x: i for i, x in enumerate(order)}
            c["constraints"][ci]["table"] = [rank.get(x, x) for x in tab]
            yield c


def minimise(mod, case, tape_list, violation, budget_s, run_timeout):
    t_end = time.time() + budget_s
    oracle = violation["oracle"]
    best_case, best_tape, best_v = case, list(tape_list), violation
    steps = 0
    extra = getattr(mod, "shrink_candidates", None)

    def all_candidates(c):
        yield from case_candidates(c)
        if extra:
            yield from extra(c)

    # -- case shrinking (greedy, restart after each success) -----------------
    progress = True
    while progress and time.time() < t_end:
        progress = False
        for cand in all_candidates(best_case):
            if time.time() > t_end:
                break
            hit = _fails(mod, cand, best_tape, oracle, run_timeout)
            k = 0
            while hit is None and k < 6 and time.time() < t_end:
                hit = _fails(mod, cand, None, oracle, run_timeout, seed=1000 + k)
                k += 1
            if hit is not None:
                best_case, (best_v, best_tape) = cand, hit
                steps += 1
                progress = True
                break
    # -- tape shrinking ---------------------------------------------------------
    # truncate
    lo, hi = 0, len(best_tape)
    while lo < hi and time.time() < t_end:
        mid = (lo + hi) // 2
        hit = _fails(mod, best_case, best_tape[:mid], oracle, run_timeout)
        if hit is not None:
            hi = mid
            best_v, best_tape = hit[0], best_tape[:mid]
            steps += 1
        else:
            lo = mid + 1
    # zero blocks then singles
    size = max(1, len(best_tape) // 2)
    while size >= 1 and time.time() < t_end:
        i = 0
        while i < len(best_tape) and time.time() < t_end:
            if any(best_tape[i:i + size]):
                cand = best_tape[:i] + [0] * len(best_tape[i:i + size]) + best_tape[i + size:]
                hit = _fails(mod, best_case, cand, oracle, run_timeout)
                if hit is not None:
                    best_tape, best_v = cand, hit[0]
                    steps += 1
            i += size
        size //= 2
    # final confirmation with the exact minimal pair
    hit = _fails(mod, best_case, best_tape, oracle, run_timeout)
    if hit is None:
        return case, list(tape_list), violation, 0
    while best_tape and best_tape[-1] == 0:
        best_tape.pop()
    return best_case, best_tape, hit[0], steps
