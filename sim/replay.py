"""Re-execute a replay file: same case, same tape, same hash seed -> same violation."""
import importlib
import json
import os
import sys

from .execute import run_one
from .tape import Tape


def main(argv):
    path = argv[0]
    with open(path) as f:
        rp = json.load(f)
    prop = rp["property"]
    mod = importlib.import_module("sim.props." + prop.lower())
    tape = Tape(replay=rp["tape"])
    out = run_one(mod, rp["case"], tape, getattr(mod, "RUN_TIMEOUT_S", 30))
    want = rp["expected"]
    for v in out["violations"]:
        if v["oracle"] == want["oracle"]:
            same = v["detail"] == want["detail"]
            print(f"  oracle={v['oracle']} features={v['features']}")
            print("  " + v["detail"].replace("\n", "\n  ")[:3000])
            print(f"REPRODUCED property={prop} oracle={v['oracle']} "
                  f"identical_detail={same} digest={tape.digest()[:16]}")
            print(f"VIOLATION property={prop} replay={os.path.abspath(path)}")
            return 1
    print(f"NOT-REPRODUCED property={prop} oracle={want['oracle']} "
          f"(violations now: {[v['oracle'] for v in out['violations']]})")
    return 0


if __name__ == "__main__":
    sys.exit(main(sys.argv[1:]))
