#!/usr/bin/env python3
"""Regenerate MANIFEST.json from the property modules (run by hand, output is committed)."""
import importlib
import json
import os
import sys

ROOT = os.path.dirname(os.path.abspath(__file__))
sys.path.insert(0, ROOT)
os.environ.setdefault("PYDCOP_SRC", "/repo")

NOT_APPLICABLE = {
    "C11": "pure function of its arguments (relation evaluation/slicing); no schedule, clock, fault or history to simulate. Its hash-seed clause is incidentally exercised because every check runs under four pinned PYTHONHASHSEEDs against hash-independent ground truth, but it is not claimed.",
    "C12": "pure algebra on relations (set_value/join/projection); no schedule or fault in it. join/projection calls made during simulated DPOP runs are covered indirectly by C01's optimum oracle only.",
    "C13": "pure function (solution_cost accounting); C22 cross-checks one call per orchestrated run but the property as quantified is input enumeration.",
    "C14": "pure parsing/printing round-trip of YAML; file reads with no fault quantifier.",
    "C16": "pure construction of computation graphs from a DCOP; nothing concurrent or timed.",
    "C17": "pure construction of the pseudo-tree (token passing is simulated sequentially inside one function call); recursion depth is an input-size effect.",
    "C23": "pure single-call functions (distribution methods); no interleaving or fault in the statement.",
    "C24": "pure ILP optimality; additionally no GLPK binary exists in the sandbox so the ILP methods cannot run.",
    "C26": "pure function of a discovery snapshot (repair constraints/candidate info).",
    "C28": "pure parameter validation.",
    "C29": "pure cartesian expansion.",
    "C30": "pure generators given the PRNG.",
    "C31": "pure cost-model accessors of AgentDef / create_agents.",
}


def main():
    checks = []
    claimed = []
    for i in range(1, 32):
        pid = f"C{i:02d}"
        path = os.path.join(ROOT, "sim", "props", pid.lower() + ".py")
        if not os.path.exists(path):
            continue
        mod = importlib.import_module("sim.props." + pid.lower())
        if not getattr(mod, "CLAIMED", True):
            continue
        claimed.append(pid)
        checks.append({
            "property_id": pid,
            "quick_cmd": f"bin/check {pid} quick",
            "thorough_cmd": f"bin/check {pid} thorough",
            "evidence_file": f"/verif/evidence/{pid}.json",
            "replay_cmd_template": "bin/replay {path}",
            "engine": "compsim" if mod.ENGINE == "A" else "threadsim",
            "level_claimed": {"category": getattr(mod, "LEVEL", "exploration"),
                              "text": mod.LEVEL_TEXT, "design_ref": mod.DESIGN_REF},
            "level_note": mod.LEVEL_NOTE,
            "technique": mod.TECHNIQUE,
        })
    na = [{"property_id": k, "reason": v} for k, v in sorted(NOT_APPLICABLE.items())
          if k not in claimed]
    manifest = {
        "version": 1,
        "setup_cmd": "bin/setup",
        "hooks": {
            "guard": "PYDCOP_VERIF",
            "enable": "none needed: every seam is a module attribute or injected collaborator patched from the harness inside the worker process; /repo carries no hook code",
            "baseline_off_cmd": "cd /repo && /venv/bin/python -m pytest -ra -q -p no:cacheprovider --timeout=900 --continue-on-collection-errors",
            "source_commits": [],
            "add_only": True,
        },
        "engines": [
            {"name": "compsim", "path": "sim/compsim.py",
             "serves_properties": [c["property_id"] for c in checks if c["engine"] == "compsim"],
             "kind_free_text": "computation-level discrete-event simulator: real pyDcop computations, FIFO channel model, tape-driven scheduler"},
            {"name": "threadsim", "path": "sim/threadsim.py",
             "serves_properties": [c["property_id"] for c in checks if c["engine"] == "threadsim"],
             "kind_free_text": "real agent runtime on baton-passed OS threads with virtual clock, tape-driven scheduler, line/opcode pre-emption"},
        ],
        "checks": checks,
        "not_applicable": na,
        "notes": "Deterministic simulation with fault injection; see DESIGN.md. bin/check <id> <tier> honours VERIF_SEED/VERIF_TIER/PYDCOP_SRC; exit 0 held, 1 VIOLATION, 2 HARNESS-ERROR.",
    }
    with open(os.path.join(ROOT, "MANIFEST.json"), "w") as f:
        json.dump(manifest, f, indent=1)
    print("claimed:", claimed)


main()
